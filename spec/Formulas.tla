------------------------------ MODULE Formulas ------------------------------
(***************************************************************************)
(* The documented closed forms of the shipped contact models (C02) on an   *)
(* exact rational lattice.  Lengths are multiples of a unit u; with        *)
(* R = r^2 u and depth = d^2 u (or d u) every documented expression is a   *)
(* rational multiple of a fixed power of u (and of tan(alpha)/pi for the   *)
(* cone / pyramid), so TLC can enumerate the lattice and emit the expected *)
(* force as rational factors; the harness multiplies them in floating      *)
(* point (with the transcendental factor) and compares with the real       *)
(* model_func / NaniteFitModel.model at exactly those points.              *)
(*                                                                         *)
(* TLC also checks the formulas against the structural clauses of the      *)
(* statement: at contact the force is the baseline, deeper means more      *)
(* force, force minus baseline is linear in the modulus.                   *)
(***************************************************************************)
EXTENDS Rational, Sequences, FiniteSets, TLC, Json

Models == {"hertz_para", "hertz_cone", "hertz_pyr3s", "sneddon_spher_approx",
           "power_layer_clifford_2009"}
Es     == {1, 10, 100, 1000, 10000}
Nus    == {<<0, 1>>, <<1, 4>>, <<1, 3>>, <<1, 2>>}
Rs     == 1..3           \* R = r^2 u
Ds     == 0..3           \* depth index (see DepthOf); d <= r keeps depth <= R
Alphas == {15, 25, 35}   \* degrees (the tangent is applied by the harness)
\* Clifford layer: E_L / E_S with a rational (2/3) power, xi = s^2
Ratios == {<<1, 1, 1, 1>>, <<1, 8, 1, 4>>, <<8, 1, 4, 1>>, <<1, 27, 1, 9>>}
Ss     == {<<1, 1>>, <<2, 1>>, <<1, 2>>}

VARIABLES model, E, nu, nuL, r, d, al, ratio, s
vars == <<model, E, nu, nuL, r, d, al, ratio, s>>

Init == /\ model \in Models /\ E \in Es /\ nu \in Nus /\ r \in Rs
        /\ d \in Ds /\ d <= r
        /\ al \in (IF model \in {"hertz_cone", "hertz_pyr3s"} THEN Alphas
                   ELSE {0})
        /\ ratio \in (IF model = "power_layer_clifford_2009" THEN Ratios
                      ELSE {<<1, 1, 1, 1>>})
        /\ s \in (IF model = "power_layer_clifford_2009" THEN Ss
                  ELSE {<<1, 1>>})
        /\ (model \in {"hertz_cone", "hertz_pyr3s",
                       "power_layer_clifford_2009"} => r = 1 \/ d > 0)
        /\ (model = "power_layer_clifford_2009" => d > 0 /\ nu # <<1, 3>>)
        \* the layer has a Poisson's ratio of its own (it enters xi only)
        /\ nuL \in (IF model = "power_layer_clifford_2009"
                    THEN Nus \ {<<1, 3>>} ELSE {nu})
Next == UNCHANGED vars
Spec == Init /\ [][Next]_vars

RPow(q, n) == IF n = 0 THEN <<1, 1>> ELSE
              LET RECURSIVE P(_)
                  P(k) == IF k = 0 THEN <<1, 1>> ELSE RMul(q, P(k - 1))
              IN P(n)
OneMinusNu2(v) == RSub(<<1, 1>>, RMul(v, v))
Reduced(m, v) == RDiv(RInt(m), OneMinusNu2(v))      \* E / (1 - nu^2)

\* ---- documented formulas: the RATIONAL part of (force - baseline) and the
\*      name of the float factor the harness applies
\* paraboloid: 4/3 E/(1-nu^2) sqrt(R) delta^(3/2), R = r^2 u, delta = d^2 u
Para(m, v, rr, dd) == RMul(RMul(<<4, 3>>, Reduced(m, v)), RInt(rr * dd * dd * dd))
\* cone: 2 tan(a)/pi E/(1-nu^2) delta^2, delta = d u
Cone(m, v, dd) == RMul(RMul(<<2, 1>>, Reduced(m, v)), RInt(dd * dd))
\* three-sided pyramid: 0.8887 tan(a) E/(1-nu^2) delta^2
Pyr(m, v, dd) == RMul(RMul(<<8887, 10000>>, Reduced(m, v)), RInt(dd * dd))
\* truncated Sneddon sphere: paraboloid times the documented series in
\*   q = delta / R = d^2 / r^2 ; emitted term by term (32-bit safe)
SeriesCoef == << <<1, 1>>, <<-1, 10>>, <<-1, 840>>, <<11, 15120>>,
                 <<1357, 6652800>> >>
SeriesTerms(rr, dd) ==
  [k \in 1..5 |-> [c |-> SeriesCoef[k],
                   q |-> RPow(RNorm(<<dd * dd, rr * rr>>), k - 1)]]
\* Clifford layer: E* = E_L + (E_S - E_L) P xi^n / (1 + P xi^n), P = 9/4,
\*   xi^n = s^3 ; E_S = E, E_L = E * ratio ; force = 4/3 E* sqrt(R) d^(3/2)
Layer(m, rat, ss, rr, dd) ==
  LET es == RInt(m)
      el == RMul(es, <<rat[1], rat[2]>>)
      px == RMul(<<9, 4>>, RPow(ss, 3))
      estar == RAdd(el, RMul(RSub(es, el), RDiv(px, RAdd(<<1, 1>>, px))))
  IN RMul(RMul(<<4, 3>>, estar), RInt(rr * dd * dd * dd))

Value(mod, m, v, rr, dd, rat, ss) ==
  CASE mod = "hertz_para" -> Para(m, v, rr, dd)
    [] mod = "hertz_cone" -> Cone(m, v, dd)
    [] mod = "hertz_pyr3s" -> Pyr(m, v, dd)
    [] mod = "sneddon_spher_approx" -> Para(m, v, rr, dd)
    [] mod = "power_layer_clifford_2009" -> Layer(m, rat, ss, rr, dd)

\* ---- what the harness gets for every lattice point
Emit ==
  PrintT(ToJson([model |-> model, E |-> E, nu |-> nu, nuL |-> nuL,
                 r |-> r, d |-> d,
                 alpha |-> al, ratio |-> ratio, s |-> s,
                 value |-> Value(model, E, nu, r, d, ratio, s),
                 series |-> IF model = "sneddon_spher_approx"
                            THEN SeriesTerms(r, d)
                            ELSE <<[c |-> <<1, 1>>, q |-> <<1, 1>>]>>]))

\* ---- structural clauses of the statement, on the formulas themselves
\* at contact (depth 0) the force is the baseline
ZeroAtContact == (d = 0) => Value(model, E, nu, r, d, ratio, s) = <<0, 1>>
\* deeper means more force (up to the tip radius)
Monotone == (d > 0 /\ model # "power_layer_clifford_2009") =>
  RLess(Value(model, E, nu, r, d - 1, ratio, s),
        Value(model, E, nu, r, d, ratio, s))
\* linear in the modulus
LinearInE == (E < 10000) =>
  Value(model, 10 * E, nu, r, d, ratio, s)
    = RMul(<<10, 1>>, Value(model, E, nu, r, d, ratio, s))
\* the series factor of the truncated sphere stays in (0, 1] up to delta = R
SeriesSum(rr, dd) ==
  LET t == SeriesTerms(rr, dd)
      RECURSIVE Sm(_)
      Sm(k) == IF k = 0 THEN <<0, 1>>
               ELSE RAdd(Sm(k - 1), RMul(t[k].c, t[k].q))
  IN Sm(5)
SeriesBounded == (model = "sneddon_spher_approx" /\ r <= 2) =>
  /\ RLess(<<0, 1>>, SeriesSum(r, d)) /\ RLeq(SeriesSum(r, d), <<1, 1>>)
=============================================================================
