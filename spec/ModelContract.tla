---------------------------- MODULE ModelContract ----------------------------
(***************************************************************************)
(* Structural model contract (C13): the direction-agnostic wrapper around  *)
(* a user's model function, and the default residuals, over INTEGER        *)
(* abscissa sequences and exact rationals.                                 *)
(*                                                                         *)
(* The user's function always sees approach-ordered data (first >= last);  *)
(* the wrapper's output has the order of the abscissa it was given.  The   *)
(* user models below exist twice: here and in harness/modelcontract_check  *)
(* (registered with the real registry); three of them are deliberately     *)
(* order-sensitive, so a wrapper that forgets to flip (or to flip back) is *)
(* visible.                                                                *)
(***************************************************************************)
EXTENDS Rational, Sequences, FiniteSets, TLC

Rev(s) == [i \in 1..Len(s) |-> s[Len(s) + 1 - i]]
Max2(a, b) == IF a >= b THEN a ELSE b

\* point-wise force of the toy contact model: E * max(0, cp - x)^2 + b
G(x, Ep, cp, b) == Ep * Max2(0, cp - x) * Max2(0, cp - x) + b

\* ---- user model functions F(x, E, cp, b): sequence -> sequence
Pointwise(x, Ep, cp, b) == [i \in 1..Len(x) |-> G(x[i], Ep, cp, b)]
RECURSIVE PSum(_, _, _, _, _)
PSum(x, i, Ep, cp, b) == IF i = 0 THEN 0
                         ELSE PSum(x, i - 1, Ep, cp, b) + G(x[i], Ep, cp, b)
PrefixSum(x, Ep, cp, b) == [i \in 1..Len(x) |-> PSum(x, i, Ep, cp, b)]
IndexWeighted(x, Ep, cp, b) == [i \in 1..Len(x) |-> i * G(x[i], Ep, cp, b)]
RECURSIVE RMaxTo(_, _, _, _, _)
RMaxTo(x, i, Ep, cp, b) ==
  IF i = 1 THEN G(x[1], Ep, cp, b)
  ELSE Max2(RMaxTo(x, i - 1, Ep, cp, b), G(x[i], Ep, cp, b))
RunningMax(x, Ep, cp, b) == [i \in 1..Len(x) |-> RMaxTo(x, i, Ep, cp, b)]

F(name, x, Ep, cp, b) ==
  CASE name \in {"pointwise", "pointwise_kwonly", "pointwise_memo"}
                              -> Pointwise(x, Ep, cp, b)
    [] name = "prefix_sum"    -> PrefixSum(x, Ep, cp, b)
    [] name = "index_weighted" -> IndexWeighted(x, Ep, cp, b)
    [] name = "running_max"   -> RunningMax(x, Ep, cp, b)

\* ---- the wrapper: ascending abscissa is handed over reversed
Ascending(x) == x[1] < x[Len(x)]
Wrapped(name, x, Ep, cp, b) ==
  IF Ascending(x) THEN Rev(F(name, Rev(x), Ep, cp, b))
  ELSE F(name, x, Ep, cp, b)
\* what the user's function is called with
SeenByUser(x) == IF Ascending(x) THEN Rev(x) ELSE x

\* ---- default residuals: (data - model) * w, w = min(|x - cp| / wd, 1);
\*      no weighting when wd = 0
Weight(xi, cp, wd) ==
  IF wd = 0 THEN <<1, 1>>
  ELSE LET a == Abs(xi - cp) IN IF a >= wd THEN <<1, 1>> ELSE RNorm(<<a, wd>>)
Residual(name, x, data, Ep, cp, b, wd) ==
  LET m == Wrapped(name, x, Ep, cp, b)
  IN [i \in 1..Len(x) |-> RMul(RInt(data[i] - m[i]), Weight(x[i], cp, wd))]
=============================================================================
