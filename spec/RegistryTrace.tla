---------------------------- MODULE RegistryTrace ----------------------------
(***************************************************************************)
(* Code -> spec for C18: one TLC state per recorded call on the REAL       *)
(* registry (register_model / deregister_model / load_model_from_file) and *)
(* per recorded ancillary-seeding case.                                    *)
(***************************************************************************)
EXTENDS RegistryOps, TLCExt

Batch  == JsonDeserialize(IOEnv.TRACE_FILE)
Traces == Batch.traces
Seeds  == Batch.seeds

VARIABLES kind, t, i
Init == \/ (kind = "call" /\ t \in DOMAIN Traces
            /\ i \in DOMAIN Traces[t].events)
        \/ (kind = "seed" /\ t \in DOMAIN Seeds /\ i = 1)
Next == UNCHANGED <<kind, t, i>>
Spec == Init /\ [][Next]_<<kind, t, i>>

ToSPairs(seq) == {seq[j] : j \in DOMAIN seq} \ {<<"_", "_">>}
PreOf(tt, ii) == IF ii = 1 THEN Traces[tt].init ELSE Traces[tt].events[ii-1].post

ModelErr(e) == e.errclass = "ModelError"     \* class or subclass

Clauses(pre, e) ==
  LET r0 == ToSPairs(pre.reg)
      r1 == ToSPairs(e.post.reg)
      m  == e.arg
  IN [
  C18_FaultyRejected |->
      (e.op = "register" /\ m \in Faulty) => ModelErr(e),
  C18_SoundAccepted |->
      (e.op = "register" /\ m \notin Faulty)
        => e.out = "ok" /\ r1 = Put(r0, m),
  C18_RejectLeavesRegistry |-> (e.out # "ok") => r1 = r0,
  C18_DeregisterExact |->
      (e.op = "deregister" /\ KeyOf(m) \in RegKeys(r0))
        => e.out = "ok" /\ r1 = Drop(r0, m),
  C18_RegisterDefaults |-> (e.op = "register" /\ e.out = "ok") => e.defaults_ok,
  C18_ImportErrorDocumented |->
      (e.op = "load" /\ Unimportable(m)) => e.errclass_exact = "ModelImportError",
  C18_FaultyFileRejected |->
      (e.op = "load" /\ ~Unimportable(m) /\ Holds(m) \in Faulty) => ModelErr(e),
  C18_LoadSound |->
      (e.op = "load" /\ ~Unimportable(m) /\ Holds(m) \notin Faulty)
        => /\ e.out = "ok"
           /\ r1 = IF e.register THEN Put(r0, Holds(m)) ELSE r0,
  C18_FileLikeShipped |-> (e.op = "load" /\ e.out = "ok") => e.like_shipped,
  C18_PathRestored |-> (e.op = "load") => e.post.path = pre.path,
  C18_BytecodeFlagRestored |-> (e.op = "load") => e.post.dwb = pre.dwb,
  C18_PathUntouchedOtherwise |->
      (e.op # "load") => e.post.path = pre.path /\ e.post.dwb = pre.dwb
  ]

SeedClauses(s) == [
  \* (for the contact point the library has an estimate of its own when the
  \* model gives none: only the seeding by a model value is owed there)
  C18_Seed |-> \A p \in DOMAIN s.anc :
                  IF p = "contact_point"
                  THEN (s.anc[p] = "val") => (s.init[p] = "anc")
                  ELSE s.init[p] = SeedOf(s.anc[p])
  ]

Report ==
  IF kind = "call"
  THEN LET e == Traces[t].events[i]
           c == Clauses(PreOf(t, i), e)
           f == {x \in DOMAIN c : ~c[x]}
       IN f = {} \/ PrintT(ToJson([t |-> t, i |-> i, failed |-> f]))
  ELSE LET c == SeedClauses(Seeds[t])
           f == {x \in DOMAIN c : ~c[x]}
       IN f = {} \/ PrintT(ToJson([seed |-> t, failed |-> f]))
=============================================================================
