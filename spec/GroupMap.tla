------------------------------ MODULE GroupMap ------------------------------
(***************************************************************************)
(* A quantitative map over a group of curves (nanite.qmap.QMap, property   *)
(* C20).  Every curve sits on its own grid pixel and has a status that     *)
(* follows Curve.tla, collapsed: no results, a successful fit with its     *)
(* values, an unsuccessful fit; and a rating that belongs to ONE fit.      *)
(* GetMap(feature) shows, at every curve's pixel, the CURRENT value, and   *)
(* NaN where there is none; all other pixels are NaN.                      *)
(***************************************************************************)
EXTENDS GroupMapOps

CONSTANTS Curves,      \* curve ids
          PixelOf,     \* [Curves -> <<ix, iy>>]   (injective)
          Shape,       \* <<nx, ny>>
          Vals         \* abstract fit values (modulus / contact point ids)

VARIABLES status,  \* [Curves -> <<"none">> | <<"fit", e, cp>> | <<"failed">>]
          rating,  \* [Curves -> <<"none">> | <<"rated", r>>]
          shown    \* the last map handed out: [feature, grid]
vars == <<status, rating, shown>>

Features == {"E", "cp", "rating"}

Init == /\ status = [c \in Curves |-> NoFit]
        /\ rating = [c \in Curves |-> Unrated]
        /\ shown = <<"none", <<>>>>

Fit(c, e, cp) == /\ status' = StFit(status, c, e, cp)
                 /\ UNCHANGED <<rating, shown>>
FitFails(c) == /\ status' = StFails(status, c)
               /\ UNCHANGED <<rating, shown>>
\* a setting is edited: results dropped
Edit(c) == /\ status' = StEdit(status, c)
           /\ UNCHANGED <<rating, shown>>
\* the curve is preprocessed again: results and rating dropped
Repre(c) == /\ status' = StEdit(status, c)
            /\ rating' = RtDrop(rating, c)
            /\ UNCHANGED shown
Rate(c, r) == /\ rating' = RtRate(rating, status, c, r)
              /\ UNCHANGED <<status, shown>>

Grid(f) == GridOf(Curves, PixelOf, Shape, status, rating, f)

GetMap(f) == /\ shown' = <<f, Grid(f)>>
             /\ UNCHANGED <<status, rating>>

Next == \/ \E c \in Curves, e \in Vals, cp \in Vals : Fit(c, e, cp)
        \/ \E c \in Curves : FitFails(c) \/ Edit(c) \/ Repre(c)
        \/ \E c \in Curves, r \in Vals : Rate(c, r)
        \/ \E f \in Features : GetMap(f)
Spec == Init /\ [][Next]_vars

\* ---------------------------------------------------------------- properties
PixelsInjective == \A a, b \in Curves : PixelOf[a] = PixelOf[b] => a = b
\* a rating is only ever shown for the fit state it was computed for
RatingShownIsCurrent == \A c \in Curves :
   ValueIn(status, rating, "rating", c) # "nan" => rating[c][3] = status[c]
\* what GetMap hands out is the current state, pixel by pixel
MapIsCurrent == [][(shown' # shown) =>
                     shown'[2] = GridOf(Curves, PixelOf, Shape, status', rating',
                                        shown'[1])]_vars
=============================================================================
