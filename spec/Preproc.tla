------------------------------- MODULE Preproc -------------------------------
(***************************************************************************)
(* Preprocessing steps (nanite.preproc, property C07) as actions with a    *)
(* declared FOOTPRINT: the columns a step owns (may change or create), and *)
(* the relations its result owes.  Everything outside the footprint is     *)
(* UNCHANGED; no step changes the number of points.                        *)
(*                                                                         *)
(* Part 1 (this module): footprint table + clauses over one recorded step  *)
(* application (before / after column digests, difference classification   *)
(* per region, relation flags computed by the harness).                    *)
(* Part 2 (PreprocMC.tla): a pipeline as a state machine over column       *)
(* versions, checked for the frame condition.                              *)
(***************************************************************************)
EXTENDS Naturals, Sequences, FiniteSets, TLC

Steps == {"compute_tip_position", "correct_force_offset",
          "correct_force_slope", "correct_tip_offset",
          "correct_split_approach_retract", "smooth_height"}
HeightLike == {"height (measured)", "height (piezo)", "tip position"}

\* columns a step may change
Owned(s) ==
  CASE s = "compute_tip_position" -> {"tip position"}
    [] s = "correct_force_offset" -> {"force"}
    [] s = "correct_force_slope" -> {"force"}
    [] s = "correct_tip_offset" -> {"tip position"}
    [] s = "correct_split_approach_retract" -> {"segment"}
    [] s = "smooth_height" -> HeightLike
\* columns a step may create
Creates(s) == IF s = "compute_tip_position" THEN {"tip position"} ELSE {}

\* relations owed by the result of a step (names of harness flags)
Owes(s) ==
  CASE s = "compute_tip_position" -> {"tip_is_height_plus_force_over_k"}
    [] s = "correct_force_offset" -> {"change_is_constant",
                                      "baseline_mean_zero"}
    [] s = "correct_tip_offset" -> {"change_is_constant",
                                    "zero_at_contact_index"}
    [] s = "correct_force_slope" -> {"outside_region_untouched",
                                     "change_is_linear_in_region",
                                     "no_jump_at_border", "trend_removed"}
    [] s = "correct_split_approach_retract" -> {"single_switch",
                                                "switch_at_farthest_point"}
    [] s = "smooth_height" -> {"strictly_monotonic_per_segment"}

ToS(seq) == {seq[i] : i \in DOMAIN seq} \ {"_"}

Clauses(r) == [
  C07_StepTotal   |-> r.raised = "",
  C07_PointsKept  |-> (r.raised = "") => r.n_after = r.n_before,
  C07_Frame       |-> (r.raised = "") => ToS(r.changed) \subseteq Owned(r.step),
  C07_NoColumnLost |-> (r.raised = "") => ToS(r.lost) = {},
  C07_OnlyOwnedCreated |-> (r.raised = "")
                             => ToS(r.created) \subseteq Creates(r.step),
  C07_StepDoesItsJob |-> (r.raised = "")
                           => \A f \in Owes(r.step) : r.flags[f]
  ]
Failed(r) == LET c == Clauses(r) IN {x \in DOMAIN c : ~c[x]}
=============================================================================
