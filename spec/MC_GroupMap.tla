---------------------------- MODULE MC_GroupMap ----------------------------
EXTENDS GroupMap
PixelDef == [c \in Curves |-> IF c = "c1" THEN <<0, 0>>
                              ELSE IF c = "c2" THEN <<1, 0>> ELSE <<1, 1>>]

ShapeDef == <<2, 2>>
=============================================================================
