---------------------------- MODULE TrainingSetMC ----------------------------
(* Design-level check of TrainingSet.tla itself on a small case space: the  *)
(* three stages, composed, really give what C15 states.                     *)
EXTENDS TrainingSet

Alphabet == {Num(<<1, 1>>), Num(<<3, 1>>), Nan, PInf, NInf}
Mats == [1..2 -> [1..2 -> Alphabet]]
Ys   == [1..2 -> {0, 4}]

VARIABLES M, y
Init == M \in Mats /\ y \in Ys
Next == UNCHANGED <<M, y>>
Spec == Init /\ [][Next]_<<M, y>>

Out == Clean(M, y, TRUE, TRUE, TRUE)
\* no NaN / infinity survives (except where the statement is silent)
NoNaNNoInf == \A i \in DOMAIN Out.X : \A j \in DOMAIN Out.X[i] :
                 IsNum(Out.X[i][j]) \/ Out.X[i][j] = <<"any">>
\* rows stay paired with their responses
Paired == \A i \in DOMAIN Out.X : Out.y[i] = y[Out.kept[i]]
\* a cell differs from the input only if it was NaN in a zero-rated row or
\* infinite
OnlyDocumentedEdits ==
  \A i \in DOMAIN Out.X : \A j \in DOMAIN Out.X[i] :
     LET src == M[Out.kept[i]][j]
     IN Out.X[i][j] # src => (IsInf(src) \/ (src = Nan /\ y[Out.kept[i]] = 0))
\* a row is dropped only if it has a NaN that could not be imputed
DropOnlyNaN == \A i \in DOMAIN M :
   (i \notin {Out.kept[k] : k \in DOMAIN Out.kept})
      => \E j \in DOMAIN M[i] : M[i][j] = Nan
=============================================================================
