--------------------------------- MODULE Poc ---------------------------------
(***************************************************************************)
(* Contact-point estimation (nanite.poc, property C08).                    *)
(*                                                                         *)
(*  - the dispatcher compute_poc: clip the approach part (everything       *)
(*    before the first maximum), run the estimator, fall back to the       *)
(*    middle when the estimator has no answer; the result is always a      *)
(*    valid integer index (envelope contract for all six estimators);      *)
(*  - exact transcriptions, over integer force arrays and rationals, of    *)
(*    the two arithmetic-free estimators deviation_from_baseline and       *)
(*    frechet_direct_path (the latter as the SET of minimisers: ties are   *)
(*    decided by float rounding in the implementation).                    *)
(***************************************************************************)
EXTENDS Rational, Sequences, FiniteSets, TLC

Methods == {"deviation_from_baseline", "fit_constant_line",
            "fit_constant_polynomial", "fit_line_polynomial",
            "frechet_direct_path", "gradient_zero_crossing"}

MaxOf(f) == CHOOSE m \in {f[i] : i \in DOMAIN f} : \A j \in DOMAIN f : f[j] <= m
MinOf(f) == CHOOSE m \in {f[i] : i \in DOMAIN f} : \A j \in DOMAIN f : f[j] >= m
\* 0-based index of the FIRST maximum (numpy argmax)
ArgMax(f) == (CHOOSE i \in DOMAIN f : f[i] = MaxOf(f)
                 /\ \A j \in DOMAIN f : f[j] = MaxOf(f) => i <= j) - 1
\* the approach part: everything before the first maximum
Clip(f) == SubSeq(f, 1, ArgMax(f))
Middle(n) == n \div 2

\* ---- deviation from baseline (on the clipped array g); "none" = no answer
Floor10(n) == n \div 10                      \* int(n * .1)
RECURSIVE SumTo(_, _)
SumTo(g, k) == IF k = 0 THEN 0 ELSE g[k] + SumTo(g, k - 1)
\* [strict |-> answers with the documented strict threshold ({} = none),
\*  tie |-> the additional answer when a sample lies EXACTLY on the
\*          threshold (decided by float rounding in the implementation)]
DevFromBaseline(g) ==
  LET n == Len(g)
      b == Floor10(n)
  IN IF b = 0 THEN [strict |-> {}, tie |-> {}]
     ELSE LET avg == RNorm(<<SumTo(g, b), b>>)
              devs == {RAbs(RSub(RInt(g[i]), avg)) : i \in 1..b}
              rng == RMul(RInt(2), CHOOSE d \in devs :
                                      \A e \in devs : RLeq(e, d))
              above == {i \in 1..n : RLess(rng, RSub(RInt(g[i]), avg))}
              touch == {i \in 1..n : RLeq(rng, RSub(RInt(g[i]), avg))}
              First(S) == (CHOOSE i \in S : \A j \in S : i <= j) - 1
          IN [strict |-> IF above = {} THEN {} ELSE {First(above)},
              tie |-> IF touch = {} \/ rng = <<0, 1>> THEN {}
                      ELSE {First(touch)}]

\* ---- Frechet distance to the direct path: minimisers of y_i - x_i with
\*      x_i = (i-1)/(n-1), y_i = (g_i - min)/(max - min)   (0-based result)
FrechetSet(g) ==
  LET n == Len(g)
      lo == MinOf(g)  hi == MaxOf(g)
      val(i) == RSub(RNorm(<<g[i] - lo, hi - lo>>), RNorm(<<i - 1, n - 1>>))
  IN IF n < 2 \/ hi = lo THEN {}
     ELSE {i - 1 : i \in {k \in 1..n : \A j \in 1..n : RLeq(val(k), val(j))}}

\* ---- what compute_poc may return for an integer array f
\* (the middle of the data, or of its approach part, when there is no answer)
FallbackSet(f) == {Middle(Len(f)), Middle(Len(Clip(f)))}
Expected(method, f) ==
  LET g == Clip(f)
  IN CASE method = "deviation_from_baseline" ->
            LET d == DevFromBaseline(g)
            IN (IF d.strict = {} THEN FallbackSet(f) ELSE d.strict) \cup d.tie
       [] method = "frechet_direct_path" ->
            IF FrechetSet(g) = {} THEN FallbackSet(f) ELSE FrechetSet(g)
       [] OTHER -> 0..(Len(f) - 1)          \* envelope only

\* degenerate inputs: no estimator has an answer
Constant(f) == \A i, j \in DOMAIN f : f[i] = f[j]
Decreasing(f) == \A i \in 1..(Len(f) - 1) : f[i] > f[i + 1]
Degenerate(f) == Len(f) = 0 \/ Constant(f) \/ Decreasing(f) \/ ArgMax(f) = 0
=============================================================================
