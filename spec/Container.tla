------------------------------ MODULE Container ------------------------------
(***************************************************************************)
(* Design of the rating container protocol (C16): a save is a sequence of  *)
(* write steps with a crash possible between any two; entries are only     *)
(* ever added; a re-save touches user fields only; a different fit for an  *)
(* existing entry is refused; whatever was committed stays loadable in     *)
(* EVERY reachable state, including all crash states.                      *)
(***************************************************************************)
EXTENDS ContainerOps

CONSTANTS Ids,        \* curve identities (file hash _ enumeration)
          HashOf,     \* [Ids -> file hash]
          Fits,       \* fit tags
          Users,      \* user tags
          MaxSaves

VARIABLES file, committed, fly, nsaves
\* fly : the in-flight save [on, id, fit, usr, steps, pc]; on = FALSE: idle
Idle == [on |-> FALSE, id |-> "", fit |-> "", usr |-> "", steps |-> <<>>,
         pc |-> 0]
vars == <<file, committed, fly, nsaves>>

Init == /\ file = [raw |-> {}, rawattr |-> {}, ana |-> [i \in Ids |-> NoEntry]]
        /\ committed = [i \in Ids |-> NoEntry]
        /\ fly = Idle /\ nsaves = 0

Begin(id, fit, usr) ==
  /\ ~fly.on /\ nsaves < MaxSaves
  /\ nsaves' = nsaves + 1
  /\ IF Refused(file, id, fit)
     THEN \* a different fit for a stored curve is refused, nothing changes
          UNCHANGED <<file, committed, fly>>
     ELSE /\ fly' = [on |-> TRUE, id |-> id, fit |-> fit, usr |-> usr,
                     steps |-> StepsFor(file, id, HashOf[id], fit), pc |-> 0]
          /\ UNCHANGED <<file, committed>>

WriteStep ==
  /\ fly.on /\ fly.pc < Len(fly.steps)
  /\ file' = ApplyStep(file, fly.steps[fly.pc + 1], fly.id, HashOf[fly.id],
                       fly.fit, fly.usr)
  /\ fly' = [fly EXCEPT !.pc = @ + 1]
  /\ UNCHANGED <<committed, nsaves>>

Finish ==
  /\ fly.on /\ fly.pc = Len(fly.steps)
  /\ committed' = [committed EXCEPT ![fly.id] = file.ana[fly.id]]
  /\ fly' = Idle
  /\ UNCHANGED <<file, nsaves>>

\* the save fails part-way (exception, full disk): the file keeps what was
\* written, nothing is committed
Crash ==
  /\ fly.on /\ fly.pc < Len(fly.steps)
  /\ fly' = Idle
  /\ UNCHANGED <<file, committed, nsaves>>

Next == \/ \E id \in Ids, f \in Fits, u \in Users : Begin(id, f, u)
        \/ WriteStep \/ Finish \/ Crash
Spec == Init /\ [][Next]_vars

\* ---------------------------------------------------------------- properties
IsCommitted(id) == committed[id] # NoEntry
\* a save that fails part-way never makes stored ratings unreadable
Readable == \A id \in Ids : IsCommitted(id) => id \in Load(file)
\* entries only grow; the fit and the stored columns of a committed entry
\* never change
FitKept == \A id \in Ids : IsCommitted(id) =>
             /\ file.ana[id].fit = committed[id].fit
             /\ committed[id].members \subseteq file.ana[id].members
\* user fields of a committed entry are the committed ones, except for the
\* entry a (possibly interrupted) re-save was writing to
UserKept == \A id \in Ids : IsCommitted(id) =>
  \A f \in UserFields : file.ana[id].user[f] \in Users
\* a step only ever touches the entry being saved
OthersUntouched ==
  [][\A id \in Ids : (fly.on /\ fly'.on /\ id # fly.id)
        => file'.ana[id] = file.ana[id]]_vars
Monotone == [][\A id \in Ids : IsCommitted(id) => IsCommitted(id)']_vars
RefusedLeavesFile ==
  [][(~fly.on /\ ~fly'.on) => file' = file]_vars
=============================================================================
