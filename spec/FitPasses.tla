------------------------------ MODULE FitPasses ------------------------------
(***************************************************************************)
(* Design state machine of the pass structure inside one fit               *)
(* (IndentationFitter.fit); the masks, ranks and the clauses evaluated on  *)
(* recorded fits are in FitPassesClauses.tla (shared with                  *)
(* FitPassesTrace.tla).                                                    *)
(***************************************************************************)
EXTENDS FitPassesClauses

CONSTANTS Modes, Ns, MaxFail

VARIABLES mode, n, done,      \* requested mode, sample count, passes so far
          cpexp,              \* exponent of k baked into the stored initial
                              \*   contact point (0 = measured units)
          okof,               \* success of each pass so far
          visible             \* what the caller sees after write-back

dvars == <<mode, n, done, cpexp, okof, visible>>

DInit == /\ mode \in Modes /\ n \in Ns
         /\ done = <<>> /\ cpexp = 0 /\ okof = <<>>
         /\ visible = [written |-> FALSE]

Plan == PassKinds(mode, n)

\* one optimiser pass: the initial contact point handed to the optimiser is
\* the stored one times k (exponent cpexp + 1); the design works on a copy,
\* so the stored value keeps exponent 0
Pass(ok) ==
  /\ Len(done) < Len(Plan)
  /\ ~visible.written
  /\ done' = Append(done, [kind |-> Plan[Len(done) + 1],
                           anchor |-> IF Plan[Len(done) + 1] = "anchored"
                                      THEN Len(done) ELSE 0,
                           cpinit |-> cpexp + 1])
  /\ okof' = Append(okof, ok)
  /\ cpexp' = cpexp
  /\ UNCHANGED <<mode, n, visible>>

\* a failed pass (too few points) ends a relative fit: there is no contact
\* point to anchor the next pass at
WriteBack ==
  /\ ~visible.written
  /\ \/ Len(done) = Len(Plan)
     \/ (okof # <<>> /\ ~okof[Len(okof)] /\ mode # "edelta")
  /\ LET success == okof # <<>> /\ okof[Len(okof)] /\ Len(done) = Len(Plan)
     IN visible' = [written |-> TRUE, success |-> success,
                    keys |-> IF success
                             THEN {"params_fitted", "chi_sqr", "xmin", "xmax"}
                             ELSE {},
                    cols |-> IF success THEN "segment" ELSE "allnan"]
  /\ UNCHANGED <<mode, n, done, cpexp, okof>>

DNext == (\E ok \in BOOLEAN : Pass(ok)) \/ WriteBack
DSpec == DInit /\ [][DNext]_dvars

\* every optimiser call sees the guess multiplied by k exactly once (C11)
InitCpInMeasuredUnits == \A i \in DOMAIN done : done[i].cpinit = 1
\* an anchored pass is anchored at the pass right before it (C05)
AnchoredAtPrevious == \A i \in DOMAIN done :
                         done[i].kind = "anchored" => done[i].anchor = i - 1
\* an unsuccessful fit leaves NaN columns and no stale numbers (C04)
FailureLeavesNothing ==
  (visible.written /\ ~visible.success)
    => visible.keys = {} /\ visible.cols = "allnan"
PlanFollowed == \A i \in DOMAIN done : done[i].kind = Plan[i]
=============================================================================
