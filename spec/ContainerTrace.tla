--------------------------- MODULE ContainerTrace ---------------------------
(***************************************************************************)
(* Code -> spec for C16.  One TLC state per recorded macro event (a real   *)
(* save_hdf5, possibly interrupted at its s-th write call by an injected   *)
(* OSError).  The projected file after the event must equal the state the  *)
(* design reaches by applying s micro-steps; what the real loaders return  *)
(* must be what the design's Load gives; round-trip flags must hold.       *)
(***************************************************************************)
EXTENDS ContainerOps, TLCExt

Batch  == JsonDeserialize(IOEnv.TRACE_FILE)
Traces == Batch.traces

VARIABLES t, i
Init == t \in DOMAIN Traces /\ i \in DOMAIN Traces[t].events
Next == UNCHANGED <<t, i>>
Spec == Init /\ [][Next]_<<t, i>>

ToS(seq) == {seq[j] : j \in DOMAIN seq} \ {"_"}
\* JSON -> abstract file
Abs(p) == [raw |-> ToS(p.raw), rawattr |-> ToS(p.rawattr),
           ana |-> [id \in DOMAIN p.ana |->
                      [fit |-> p.ana[id].fit,
                       members |-> ToS(p.ana[id].members),
                       user |-> p.ana[id].user]]]
PreOf(tt, ii) == IF ii = 1 THEN Traces[tt].init ELSE Traces[tt].events[ii-1].post

\* the fit tag of an entry is only observable once its hash attribute exists
Vis(file) == [file EXCEPT !.ana = [id \in DOMAIN file.ana |->
                 IF "fit hash" \in file.ana[id].members THEN file.ana[id]
                 ELSE [file.ana[id] EXCEPT !.fit = "unknown"]]]

Expected(pre, e) ==
  LET f0 == Abs(pre)
      refused == Refused(f0, e.id, e.fit)
      steps == StepsFor(f0, e.id, e.hash, e.fit)
      n == IF e.crash = 0 \/ e.crash > Len(steps) THEN Len(steps)
           ELSE e.crash - 1
  IN IF refused
     THEN \* the two groups are looked up (write-capable calls that change
          \* nothing) before the fits are compared: a fault there comes first
          [file |-> f0, nsteps |-> 0,
           out |-> IF e.crash > 0 /\ e.crash <= S.resave_prefix
                   THEN "crash" ELSE "refused"]
     ELSE [file |-> ApplySteps(f0, steps, n, e.id, e.hash, e.fit, e.usr),
           out |-> IF e.crash = 0 \/ e.crash > Len(steps) THEN "ok"
                   ELSE "crash",
           nsteps |-> Len(steps)]

Clauses(pre, e) ==
  LET x == Expected(pre, e)
      post == Abs(e.post)
      f0 == Abs(pre)
  IN [
  C16_SaveOutcome   |-> e.out = x.out,
  C16_DifferentFitRefused |-> (x.out = "refused") => (e.out = "refused"),
  C16_FileAfterSave |-> Vis(post) = Vis(x.file),
  C16_StepCount     |-> (x.out = "ok") => (e.nwrites = x.nsteps),
  C16_OthersUntouched |-> \A id \in DOMAIN post.ana :
                             (id # e.id) => post.ana[id] = f0.ana[id],
  C16_BytesOfOthers |-> e.others_bytes_same,
  \* storing a curve whose fit is the stored one (whatever else happened to
  \* the curve object meanwhile) touches the user fields only
  C16_ResaveUserFieldsOnly |->
      (e.id \in Load(f0) /\ f0.ana[e.id].fit = e.fit /\ e.out = "ok")
         => e.fitpart_same,
  \* loading a directory that also holds ANOTHER container with the same
  \* curves under other fits: every rating shows its own fit
  C16_DirectoryLoadKeepsFits |-> e.dirload_ok,
  C16_RefusedFileUnchanged |-> (e.out = "refused") => e.file_bytes_same,
  \* owed as soon as anything loadable is stored
  \* the container only ever grows: what was loadable stays loadable, with
  \* the same fit
  C16_OnlyGrows     |-> \A id \in Load(f0) :
                           id \in Load(post) /\ post.ana[id].fit = f0.ana[id].fit,
  C16_LoadReadable  |-> (Load(post) # {}) => e.post.load_ok,
  C16_LoadSet       |-> e.post.load_ok => (ToS(e.post.loaded) = Load(post)),
  C16_RatedAgrees   |-> e.post.load_ok => (ToS(e.post.rated) = Load(post)),
  C16_RoundTripColumns  |-> e.post.rt_columns,
  C16_RoundTripSettings |-> e.post.rt_settings,
  C16_RoundTripUser     |-> e.post.rt_user,
  C16_RoundTripFeatures |-> e.post.rt_features
  ]

Report ==
  LET e == Traces[t].events[i]
      c == Clauses(PreOf(t, i), e)
      f == {n \in DOMAIN c : ~c[n]}
  IN  f = {} \/ PrintT(ToJson([t |-> t, i |-> i, failed |-> f]))
=============================================================================
