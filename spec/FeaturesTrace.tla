---------------------------- MODULE FeaturesTrace ----------------------------
(* One TLC state per recorded compute_features call on a REAL curve.        *)
EXTENDS FeaturesClass, Json, IOUtils, TLCExt

Batch == JsonDeserialize(IOEnv.TRACE_FILE)
Recs  == Batch.records
ToS(seq) == {seq[i] : i \in DOMAIN seq} \ {"_"}

VARIABLES k
Init == k \in DOMAIN Recs
Next == UNCHANGED k
Spec == Init /\ [][Next]_k

Clauses(r) ==
  LET want == ExpectedOrder(ToS(r.requested), r.which)
      got  == SubSeq(r.names, 1, r.nnames)
      \* named alternative: with which_type "all" and explicit names the
      \* implementation documents that it keeps the caller's order
      caller == SelectSeq(r.requested, LAMBDA n : n \in NameSet)
  IN [
  C17_Total       |-> r.raised = "",
  C17_ValueClasses |->
      (r.raised = "") => \A i \in 1..r.nnames :
         (r.names[i] \in NameSet) =>
            OkFor(r.names[i], r.classes[i], r.fitted, r.forcepos),
  C17_SortedOrder |-> (r.raised = "")
                        => got = want \/ (r.which = "all" /\ got = caller),
  C17_ValuesBelongToNames |-> r.values_match,
  C17_CurveUnchanged |-> r.unchanged,
  C17_ScaleInvariant |-> r.scale_ok,
  C17_RetractIndependent |-> r.retract_ok,
  C17_OnlyAbscissaForceFit |-> r.othercols_ok,
  C17_Deterministic |-> r.repeat_ok,
  \* features depend only on the curve's present approach data, fit and
  \* contact point -- not on what the features object saw earlier
  C17_InstanceHistoryFree |-> r.history_ok
  ]

Report == LET c == Clauses(Recs[k])
              f == {x \in DOMAIN c : ~c[x]}
          IN f = {} \/ PrintT(ToJson([rec |-> k, failed |-> f]))
=============================================================================
