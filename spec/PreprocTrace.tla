----------------------------- MODULE PreprocTrace -----------------------------
EXTENDS Preproc, Json, IOUtils, TLCExt
Batch == JsonDeserialize(IOEnv.TRACE_FILE)
Recs == Batch.records
VARIABLES k
Init == k \in DOMAIN Recs
Next == UNCHANGED k
Spec == Init /\ [][Next]_k
Report == LET f == Failed(Recs[k])
          IN f = {} \/ PrintT(ToJson([rec |-> k, failed |-> f]))
=============================================================================
