--------------------------- MODULE AutosortTrace ---------------------------
(***************************************************************************)
(* Code -> spec conformance for C14: every record in the batch is one      *)
(* observation of the REAL preproc.autosort / check_order / apply on one   *)
(* input list.  The expected verdicts come from layer (i) of Autosort.tla  *)
(* (never from Python).  One TLC state per record; the names of the failed *)
(* clauses are printed as JSON.                                            *)
(***************************************************************************)
EXTENDS AutosortContract, TLCExt

Batch == JsonDeserialize(IOEnv.TRACE_FILE)

VARIABLE k

\* clauses owed by a record whose input is an ordered selection of steps
SelClauses(r) ==
  LET in == r.inp  out == r.sort_out IN
  [ sort_total  |-> (Complete(in) => r.sort_ok),
    permutation |-> (r.sort_ok /\ Complete(in) => IsPerm(in, out)),
    order_valid |-> (r.sort_ok /\ Complete(in) => CheckOrder(out)),
    valid_unchanged |-> (r.sort_ok /\ CheckOrder(in) => out = in),
    idempotent  |-> (r.sort_ok /\ Complete(in) => r.again_ok /\ r.again_out = out),
    check_order |-> (r.check = CheckOrder(in)),
    apply_iff   |-> (r.apply = ApplyAccepts(in)),
    \* the same verdict from a curve object that has a history: it applied
    \* a valid arrangement of the very same steps just before
    apply_iff_after_valid |-> (r.apply_hist = ApplyAccepts(in)) ]

\* clauses owed by a list that contains an unknown identifier
UnkClauses(r) ==
  [ apply_rejects_unknown |-> (~r.apply /\ ~ApplyAccepts(r.inp)),
    apply_rejects_unknown_after_valid |-> ~r.apply_hist ]

\* a list that names a step more than once is judged like any other list:
\* every occurrence needs its required steps before it
RepClauses(r) ==
  [ apply_iff_repeated |-> (r.apply = ApplyAccepts(r.inp)),
    apply_iff_repeated_after_valid |-> (r.apply_hist = ApplyAccepts(r.inp)) ]

\* the list of available steps
AvClauses(r) ==
  [ available_all   |-> (Range(r.inp) = Steps /\ Len(r.inp) = Cardinality(Steps)),
    available_valid |-> CheckOrder(r.inp) ]

Clauses(r) == CASE r.kind = "selection" -> SelClauses(r)
                [] r.kind = "unknown"   -> UnkClauses(r)
                [] r.kind = "available" -> AvClauses(r)
                [] r.kind = "repeated"  -> RepClauses(r)

Failed(r) == LET c == Clauses(r) IN {n \in DOMAIN c : ~c[n]}

Init == k \in DOMAIN Batch
Next == UNCHANGED k
Spec == Init /\ [][Next]_k

\* always TRUE; reports failing clauses as a side effect
Report == LET f == Failed(Batch[k])
          IN  f = {} \/ PrintT(ToJson([rec |-> k, failed |-> f]))

\* the harness must have exercised the WHOLE case space of the spec
CaseSpace ==
  k = 1 => PrintT(ToJson([casespace |->
      ({Batch[i].inp : i \in {j \in DOMAIN Batch : Batch[j].kind = "selection"}}
         = Selections),
      nsel |-> Cardinality(Selections)]))
=============================================================================
