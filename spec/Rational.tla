------------------------------ MODULE Rational ------------------------------
(* Exact rationals <<num, den>> (den > 0, lowest terms) for the specs that  *)
(* need arithmetic: TLC has 32-bit integers and no floats.                  *)
EXTENDS Integers

Abs(x) == IF x < 0 THEN -x ELSE x
RECURSIVE GCD(_, _)
GCD(a, b) == IF b = 0 THEN Abs(a) ELSE GCD(b, a % b)
RNorm(q) == LET g == GCD(q[1], q[2])
                s == IF q[2] < 0 THEN -1 ELSE 1
            IN IF q[1] = 0 THEN <<0, 1>>
               ELSE <<s * (q[1] \div g), s * (q[2] \div g)>>
RAdd(p, q) == RNorm(<<p[1] * q[2] + q[1] * p[2], p[2] * q[2]>>)
RSub(p, q) == RNorm(<<p[1] * q[2] - q[1] * p[2], p[2] * q[2]>>)
RMul(p, q) == RNorm(<<p[1] * q[1], p[2] * q[2]>>)
RDiv(p, q) == RNorm(<<p[1] * q[2], p[2] * q[1]>>)
RInt(n)    == <<n, 1>>
RLess(p, q) == p[1] * q[2] < q[1] * p[2]
RLeq(p, q)  == p[1] * q[2] <= q[1] * p[2]
RAbs(p)    == <<Abs(p[1]), p[2]>>
RNeg(p)    == <<-p[1], p[2]>>
RMax(p, q) == IF RLess(p, q) THEN q ELSE p
=============================================================================
