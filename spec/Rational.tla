------------------------------ MODULE Rational ------------------------------
(* Exact rationals <<num, den>> (den > 0, lowest terms) for the specs that  *)
(* need arithmetic: TLC has 32-bit integers and no floats.                  *)
EXTENDS Integers

Abs(x) == IF x < 0 THEN -x ELSE x
RECURSIVE GCD(_, _)
GCD(a, b) == IF b = 0 THEN Abs(a) ELSE GCD(b, a % b)
RNorm(q) == LET g == GCD(q[1], q[2])
                s == IF q[2] < 0 THEN -1 ELSE 1
            IN IF q[1] = 0 THEN <<0, 1>>
               ELSE <<s * (q[1] \div g), s * (q[2] \div g)>>
\* (operands are reduced against each other first, to stay within TLC's
\*  32-bit integers; TLC raises an error on overflow, it never wraps)
RAdd(p, q) == LET g == GCD(p[2], q[2])
              IN RNorm(<<p[1] * (q[2] \div g) + q[1] * (p[2] \div g),
                         (p[2] \div g) * q[2]>>)
RSub(p, q) == RAdd(p, <<-q[1], q[2]>>)
RMul(p, q) == LET a == RNorm(<<p[1], q[2]>>)
                  b == RNorm(<<q[1], p[2]>>)
              IN RNorm(<<a[1] * b[1], a[2] * b[2]>>)
RDiv(p, q) == RMul(p, IF q[1] < 0 THEN <<-q[2], -q[1]>> ELSE <<q[2], q[1]>>)
RInt(n)    == <<n, 1>>
RLess(p, q) == LET g == GCD(p[2], q[2])
               IN p[1] * (q[2] \div g) < q[1] * (p[2] \div g)
RLeq(p, q)  == LET g == GCD(p[2], q[2])
               IN p[1] * (q[2] \div g) <= q[1] * (p[2] \div g)
RAbs(p)    == <<Abs(p[1]), p[2]>>
RNeg(p)    == <<-p[1], p[2]>>
RMax(p, q) == IF RLess(p, q) THEN q ELSE p
=============================================================================
