------------------------------ MODULE AutosortContract --------------------------
(***************************************************************************)
(* nanite.preproc: ordering rules of preprocessing steps (property C14).   *)
(*                                                                         *)
(* Layer (i)  : the declarative contract of autosort / check_order /       *)
(*              apply acceptance, written from the property statement.     *)
(* Layer (ii) : a PlusCal transcription of the insertion algorithm of      *)
(*              `preproc.autosort` (one label per loop of the code), which *)
(*              TLC checks against layer (i) for EVERY ordered selection   *)
(*              of the registered steps.                                   *)
(*                                                                         *)
(* The step registry (identifiers, required and optional predecessors) is  *)
(* NOT written here: it is exported from the live `preproc.PREPROCESSORS`  *)
(* by the harness into a JSON file named by the environment variable       *)
(* AUTOSORT_REG, so that a changed requirement declaration changes the     *)
(* model.                                                                  *)
(***************************************************************************)
EXTENDS Naturals, Sequences, FiniteSets, TLC, Json, IOUtils, SequencesExt

Reg      == JsonDeserialize(IOEnv.AUTOSORT_REG)
StepSeq  == Reg.steps                 \* registration order
Steps    == ToSet(StepSeq)
ReqSeq(s) == Reg.req[s]               \* declared order matters to the algorithm
OptSeq(s) == Reg.opt[s]
ReqOf(s) == ToSet(ReqSeq(s))
OptOf(s) == ToSet(OptSeq(s))

Pos(l, e) == CHOOSE i \in DOMAIN l : l[i] = e

\* every ordered selection (no repetition) of the registered steps
Selections == UNION {SetToSeqs(T) : T \in SUBSET Steps}

-----------------------------------------------------------------------------
(* Layer (i): contract *)

Complete(l) == \A i \in DOMAIN l : ReqOf(l[i]) \subseteq Range(l)

CheckOrder(l) ==
  \A i \in DOMAIN l :
    /\ \A r \in ReqOf(l[i]) : r \in Range(l) /\ Pos(l, r) < i
    /\ \A o \in OptOf(l[i]) \cap Range(l) : Pos(l, o) < i

IsPerm(a, b) == Len(a) = Len(b) /\ Range(a) = Range(b)

SortOK(in, out) == /\ IsPerm(in, out)
                   /\ CheckOrder(out)
                   /\ (CheckOrder(in) => out = in)

\* `apply` accepts a list iff every identifier is known and all required
\* steps of every member occur EARLIER in the list
ApplyAccepts(l) ==
  \A i \in DOMAIN l :
    /\ l[i] \in Steps
    /\ ReqOf(l[i]) \subseteq {l[j] : j \in 1..(i-1)}

\* The declared rules must be satisfiable at all (no cycles): some total
\* order of all steps passes the check.
RulesSatisfiable == \E l \in SetToSeqs(Steps) : CheckOrder(l)

=============================================================================
