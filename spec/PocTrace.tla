------------------------------ MODULE PocTrace ------------------------------
(* One TLC state per recorded compute_poc call / invariance pair.           *)
EXTENDS Poc, Json, IOUtils, TLCExt

Batch == JsonDeserialize(IOEnv.TRACE_FILE)
Ints  == Batch.ints          \* integer arrays: exact expectation
Envs  == Batch.envelopes     \* real-valued arrays: envelope + invariance

VARIABLES kind, k
Init == \/ (kind = "int" /\ k \in DOMAIN Ints)
        \/ (kind = "env" /\ k \in DOMAIN Envs)
Next == UNCHANGED <<kind, k>>
Spec == Init /\ [][Next]_<<kind, k>>

\* arrays arrive padded with one sentinel element at the end
Arr(r) == SubSeq(r.f, 1, r.n)

IntClauses(r) ==
  LET f == Arr(r) IN [
  C08_NeverRaises |-> r.raised = "",
  C08_ValidIndex  |-> (r.raised = "") =>
                        r.is_int /\ (r.n = 0 \/ (0 <= r.cp /\ r.cp < r.n)),
  C08_AsTranscribed |-> (r.raised = "" /\ r.n > 0)
                          => r.cp \in Expected(r.method, f),
  C08_DegenerateFallsBack |->
      (r.raised = "" /\ r.n > 0 /\ Degenerate(f)) => r.cp \in FallbackSet(f),
  C08_DetailsAgree |-> r.details_same
  ]

\* "a stated fraction of the curve length": the envelope of each estimator on
\* noise-free model curves with a baseline of 20-80 % of the approach (in
\* thousandths of the array length; the two crude ones are stated as such)
AccBound == [deviation_from_baseline |-> 100, fit_constant_line |-> 300,
             fit_constant_polynomial |-> 80, fit_line_polynomial |-> 80,
             frechet_direct_path |-> 350, gradient_zero_crossing |-> 80]

EnvClauses(r) == [
  C08_CleanCurveAccuracy |-> r.clean => r.err_permille <= AccBound[r.method],
  C08_NeverRaises |-> r.raised = "",
  C08_ValidIndex  |-> (r.raised = "") => r.is_int /\ 0 <= r.cp /\ r.cp < r.n,
  C08_ScalePow2Exact |-> r.pow2_same,
  C08_ShiftPow2Exact |-> r.shift_same,
  C08_ScaleWithinOne |-> r.scale_close,
  \* an offset that dwarfs the signal (2^18 times its range, still exact in
  \* binary floating point) moves the index by at most one sample
  C08_LargeShiftWithinOne |-> r.bigshift_close,
  C08_DegenerateFallsBack |-> r.degenerate => r.fallback_ok,
  C08_DetailsAgree |-> r.details_same
  ]

FailedOf(c) == {x \in DOMAIN c : ~c[x]}
Report ==
  IF kind = "int"
  THEN LET f == FailedOf(IntClauses(Ints[k]))
       IN f = {} \/ PrintT(ToJson([int |-> k, failed |-> f]))
  ELSE LET f == FailedOf(EnvClauses(Envs[k]))
       IN f = {} \/ PrintT(ToJson([env |-> k, failed |-> f]))
=============================================================================
