------------------------------ MODULE FeaturesClass ---------------------------
(***************************************************************************)
(* Rating features (nanite.rate.features, property C17).                   *)
(*                                                                         *)
(* Part 1: the classification of the 15 features and what each may be in   *)
(*         which curve state (class table written from the feature         *)
(*         definitions; used by FeaturesTrace.tla on recorded values).     *)
(* Part 2: a small design state machine: features are a function of the    *)
(*         approach segment (up to a common positive force factor), its    *)
(*         fit and the fitted contact point, and of nothing else;          *)
(*         computing them changes nothing.                                 *)
(***************************************************************************)
EXTENDS Naturals, Sequences, FiniteSets, TLC

\* all feature names, in sorted order (the order results are returned in)
AllNames == << "feat_bin_apr_spikes_count", "feat_bin_cp_position",
               "feat_bin_size", "feat_con_apr_flatness", "feat_con_apr_size",
               "feat_con_apr_sum", "feat_con_bln_slope",
               "feat_con_bln_variation", "feat_con_cp_curvature",
               "feat_con_cp_magnitude", "feat_con_idt_maxima_75perc",
               "feat_con_idt_monotony", "feat_con_idt_spike_area",
               "feat_con_idt_sum", "feat_con_idt_sum_75perc" >>
NameSet == {AllNames[i] : i \in DOMAIN AllNames}
Binary    == {"feat_bin_apr_spikes_count", "feat_bin_cp_position",
              "feat_bin_size"}
Fraction  == {"feat_con_apr_flatness", "feat_con_apr_size"}
Signed    == {"feat_con_cp_curvature"}
Magnitude == NameSet \ (Binary \cup Fraction \cup Signed)
\* the only feature that is defined without a successful fit
NoFitNeeded == {"feat_bin_size"}
FitDependent == NameSet \ NoFitNeeded

\* value classes reported by the harness for one value
\*   "nan" "zero" "one" "in01" (strictly between) "pos" (> 1) "neg" "inf"
OkFor(name, cls, fitted, forcepos) ==
  /\ cls # "inf"
  /\ (name \in Binary => cls \in {"nan", "zero", "one"})
  /\ (name \in Fraction => cls \in {"nan", "zero", "one", "in01"})
  /\ (name \in Magnitude /\ forcepos => cls # "neg")
  /\ (name \in FitDependent /\ ~fitted => cls = "nan")

\* requested names (any order, any type filter) -> the order of the result
TypeOf(name) == IF name \in Binary THEN "binary" ELSE "continuous"
Selected(requested, which) ==
  {n \in NameSet : (requested = {} \/ n \in requested)
                   /\ (which = "all" \/ TypeOf(n) = which)}
ExpectedOrder(requested, which) ==
  SelectSeq(AllNames, LAMBDA n : n \in Selected(requested, which))
=============================================================================
