------------------------------- MODULE Curve -------------------------------
(***************************************************************************)
(* One nanite.Indentation object and the mutable objects its caller owns   *)
(* (DESIGN.md 3.1).  This is the DESIGN: values are taken by value, a      *)
(* rejected preprocessing request leaves an unprocessed curve, results are *)
(* dropped whenever a stored setting or the data change, a repeated fit is *)
(* a no-op.  One action per public call.  The canonical successor of every *)
(* action is asserted (TLC `Assert`) to satisfy the relational contract of *)
(* CurveClauses.tla -- the same clauses CurveTrace.tla evaluates on the    *)
(* real implementation -- and the state invariants below are checked on    *)
(* every reachable state.  The labelled state graph (`-dump dot,           *)
(* actionlabels`) is the source of the walks replayed into the real code.  *)
(*                                                                         *)
(* The "world" (pipelines, setting keys, value ids and their tables) is    *)
(* read from the JSON file named by the environment variable WORLD; the    *)
(* harness writes it from harness/world.py, so the abstract ids have a     *)
(* concrete meaning on the Python side.                                    *)
(***************************************************************************)
EXTENDS CurveClauses, Json, IOUtils, SequencesExt

W        == JsonDeserialize(IOEnv.WORLD)
Pipes    == ToSet(W.pipes)          \* valid pipeline values ("P0" = none)
BadPipes == ToSet(W.badpipes)       \* requests that must be rejected
Keys     == ToSet(W.keys)           \* active setting keys of this world
Vals(k)  == ToSet(W.vals[k])        \* candidate values (ids) of key k
PiVals   == IF "params_initial" \in Keys THEN Vals("params_initial") ELSE {}
Raters   == ToSet(W.raters)
NormOf(v)   == W.norm[v]            \* representation-normalised class
StrictOf(v) == W.strict[v]          \* Python-equality class
BadVals  == ToSet(W.bad)            \* values the fitter must refuse
Default(k)  == W.default[k]         \* value id of the documented default
HasTip(d)   == W.hastip[d]          \* pipeline data with a "tip position"
Guess(d, m) == W.guess[d][m]        \* guessed initial parameters (value id)
Compat(q, m) == <<q, m>> \in {<<c[1], c[2]>> : c \in ToSet(W.compat)}
RxHi(v)     == W.rxhi[v]
Pseudo(r)   == r \in ToSet(W.pseudoraters)
KeyIdx(k)   == CHOOSE i \in DOMAIN W.keys : W.keys[i] = k   \* sorted order
GuessIds    == {W.guess[p][m] : p \in DOMAIN W.guess, m \in ToSet(W.models)}

VARIABLES plobj,   \* value held by the caller's (steps list, options dict)
          piobj,   \* value held by the caller's Parameters object / "nil"
          st       \* the curve object (record below)

vars == <<plobj, piobj, st>>

None == <<"none">>

\* ------------------------------------------------------------- settings
Get(s, k)  == IF s[k] = "unset" THEN Default(k) ELSE s[k]
ModelOf(s) == IF "model_key" \in Keys THEN Get(s, "model_key")
              ELSE W.default["model_key"]
EdeltaOn(s) == "optimal_fit_edelta" \in Keys
               /\ NormOf(Get(s, "optimal_fit_edelta")) = NormOf("e_on")
\* effective settings: normal forms, don't-cares removed
Eff(s) == [k \in Keys |->
             IF k = "optimal_fit_num_samples" /\ ~EdeltaOn(s) THEN "dontcare"
             ELSE IF k = "range_x" /\ EdeltaOn(s) THEN RxHi(Get(s, k))
             ELSE IF k = "params_initial" /\ s[k] = "unset" THEN "unset"
             ELSE NormOf(Get(s, k))]

\* the fitter refuses ...
Refused(d, s) ==
  \/ ~HasTip(d)
  \/ \E k \in Keys : Get(s, k) \in BadVals
  \/ "params_initial" \in Keys /\ s["params_initial"] # "unset"
       /\ ~Compat(s["params_initial"], ModelOf(s))
  \/ EdeltaOn(s) /\ "range_type" \in Keys
       /\ NormOf(Get(s, "range_type")) # NormOf("t_abs")

SameStored(s, k, v) == s[k] # "unset" /\ StrictOf(s[k]) = StrictOf(v)

\* fit_properties[k] = v  (no exception path here; unknown keys are separate)
SetIn(s, k, v) ==
  IF SameStored(s, k, v) THEN s
  ELSE IF k = "range_x" /\ EdeltaOn(s) /\ s[k] # "unset"
          /\ RxHi(s[k]) = RxHi(v) THEN s           \* documented don't-care
  ELSE IF k = "model_key" /\ "params_initial" \in Keys
       THEN [s EXCEPT ![k] = v, !["params_initial"] = "unset"]
  ELSE [s EXCEPT ![k] = v]

Changed(s1, s2) == s1 # s2

\* ------------------------------------------------------------- projection
Proj(x) ==
  [pipe |-> x.pipe, pipe_fp |-> x.pipe_fp, data |-> x.data,
   sett |-> [k \in Keys |-> IF x.sett[k] = "unset" THEN "unset"
                            ELSE NormOf(x.sett[k])],
   res  |-> IF x.res = None THEN "none"
            ELSE IF x.res[2] = x.data /\ x.res[3] = Eff(x.sett)
                    /\ x.res[4] = x.pipe_fp THEN "cur"
            ELSE "stale",
   hash |-> IF x.res = None THEN "none" ELSE x.res,
   scan |-> IF x.scan = None
            THEN (IF x.res # None /\ EdeltaOn(x.sett) THEN "withfit"
                  ELSE "none")
            ELSE IF x.scan[2] = x.data /\ x.scan[3] = Eff(x.sett)
                 THEN "cur"
            ELSE "stale",
   rawok |-> TRUE, success |-> x.res # None, short |-> W.short,
   edelta |-> EdeltaOn(x.sett),
   rx_hi |-> IF "range_x" \in Keys /\ x.sett["range_x"] # "unset"
             THEN RxHi(x.sett["range_x"]) ELSE "unset"]

E0 == [op |-> "none", out |-> "ok", nopt |-> 0, argsame |-> TRUE,
       p |-> "none", bad |-> FALSE, fresh |-> "none", key |-> "none",
       rxhi |-> "none", binfail |-> FALSE, contnan |-> FALSE,
       val |-> "none", kwvals |-> <<>>, haspre |-> FALSE, streq |-> FALSE,
       orphan |-> FALSE, ret |-> "none", expect |-> "none", expect2 |-> "none",
       tree |-> FALSE,
       pseudo |-> FALSE, details |-> FALSE, via |-> "fresh",
       retnum |-> [m1 |-> FALSE, zero |-> FALSE, inrange |-> FALSE]]

\* the canonical successor must satisfy the relational contract
Conforms(x, e, y) ==
  LET f == Failed(Proj(x), e, Proj(y))
  IN  Assert(f = {}, <<"design violates its own contract", f, e>>)

\* ------------------------------------------------------------- init
Init ==
  /\ plobj = "P0"
  /\ piobj = "nil"
  /\ st = [pipe |-> "P0", pipe_fp |-> "unset", data |-> "P0",
           sett |-> [k \in Keys |-> "unset"],
           res |-> None, scan |-> None, rate |-> None]

\* ------------------------------------------------------------- caller
MutatePL(p) ==
  /\ W.mutate_pl
  /\ p \in Pipes \cup BadPipes /\ p # plobj
  /\ plobj' = p /\ UNCHANGED <<piobj, st>>
  /\ Conforms(st, [E0 EXCEPT !.op = "mutate_pl"], st')

MutatePI(q) ==
  /\ W.mutate_pi
  /\ piobj # "nil" /\ q \in PiVals /\ q # piobj
  /\ piobj' = q /\ UNCHANGED <<plobj, st>>
  /\ Conforms(st, [E0 EXCEPT !.op = "mutate_pi"], st')

\* ------------------------------------------------------------- preprocessing
\* state after apply_preprocessing(p)
PreIn(x, p) ==
  IF p \in BadPipes
  THEN \* rejected: the curve is left unprocessed and says so
       [x EXCEPT !.pipe = "P0", !.pipe_fp = "P0", !.data = "P0",
                 !.res = None, !.scan = None, !.rate = None]
  ELSE IF x.pipe_fp = p THEN x                      \* same request: no-op
  ELSE [x EXCEPT !.pipe = p, !.pipe_fp = p, !.data = p,
                 !.res = None, !.scan = None, !.rate = None]

EvPre(x, p, op) ==
  [E0 EXCEPT !.op = op, !.p = p, !.bad = (p \in BadPipes),
             !.fresh = IF p \in BadPipes THEN "reject" ELSE p,
             !.out = IF p \in BadPipes THEN "raise" ELSE "ok",
             !.streq = (x.pipe_fp = p), !.haspre = (op = "fit")]

\* a request that also asks for the details re-runs the pipeline even when
\* it is the one in effect; results are dropped (FitProperties.reset), data
\* and settings stay
DetailsIn(x, p) ==
  IF p \in BadPipes \/ x.pipe_fp # p THEN PreIn(x, p)
  ELSE [x EXCEPT !.res = None, !.scan = None, !.rate = None]

\* via = "details": fresh arguments and ret_details=True (the details are a
\* by-product: the state after the call is that of a plain request)
\* via = "attr": the caller edits the objects the curve exposes as its
\* `preprocessing` / `preprocessing_options` attributes in place and passes
\* them (or nothing, which means the same) -- as good as fresh equal values
ApplyPre(p, via) ==
  /\ via \in {"obj", "fresh", "details", "attr"}
  /\ p \in Pipes \cup BadPipes
  /\ (via = "obj") => (W.mutate_pl /\ p = plobj)
  /\ st' \in (IF via = "details" THEN {PreIn(st, p), DetailsIn(st, p)}
                                   ELSE {PreIn(st, p)})
  /\ UNCHANGED <<plobj, piobj>>
  /\ Conforms(st, [EvPre(st, p, "apply") EXCEPT
                     !.details = (via = "details"),
                     !.via = IF via \in {"obj", "attr"} THEN "obj" ELSE "fresh"],
              st')

\* ------------------------------------------------------------- settings
SetKey(k, v, via) ==
  /\ k \in Keys /\ v \in Vals(k)
  /\ via \in {"obj", "fresh"}
  /\ (via = "obj") => (W.mutate_pi /\ k = "params_initial" /\ v = piobj)
  /\ LET s2 == SetIn(st.sett, k, v)
     IN  st' = IF s2 = st.sett THEN st
               ELSE [st EXCEPT !.sett = s2, !.res = None, !.scan = None]
  /\ UNCHANGED <<plobj, piobj>>
  /\ Conforms(st, [E0 EXCEPT !.op = "set", !.key = k, !.val = NormOf(v),
                             !.rxhi = IF k = "range_x" THEN RxHi(v)
                                      ELSE "none",
                             !.streq = SameStored(st.sett, k, v)], st')

SetUnknown ==
  /\ UNCHANGED vars
  /\ Conforms(st, [E0 EXCEPT !.op = "set_unknown", !.key = "unknown",
                             !.out = "raise"], st')

\* ------------------------------------------------------------- fitting
\* fit_model(**kw [, preprocessing = p]) ; kw : a function on a subset of Keys
FitIn(x, kw, p) ==
  LET x1 == IF p = "nopre" THEN x ELSE PreIn(x, p)
      rejected == p # "nopre" /\ p \in BadPipes
      \* keyword arguments are stored in sorted key order
      s1 == LET RECURSIVE Put(_, _)
                Put(s, ks) == IF ks = <<>> THEN s
                              ELSE Put(SetIn(s, Head(ks), kw[Head(ks)]),
                                       Tail(ks))
            IN Put(x1.sett, SetToSortSeq(DOMAIN kw,
                           LAMBDA a, b : KeyIdx(a) < KeyIdx(b)))
      x2 == IF s1 = x1.sett THEN x1
            ELSE [x1 EXCEPT !.sett = s1, !.res = None, !.scan = None]
      \* default model / guessed initial parameters become stored settings
      s3 == IF "params_initial" \in Keys /\ s1["params_initial"] = "unset"
            THEN [s1 EXCEPT !["params_initial"] =
                     Guess(x2.data, ModelOf(s1))]
            ELSE s1
      x3 == [x2 EXCEPT !.sett = s3,
                       !.scan = IF s3 # s1 THEN None ELSE @]
      noop == x2.res # None
      refused == Refused(x3.data, s3)
      full == [k \in Keys |-> Get(s3, k)]     \* a fit stores every default
  IN  IF rejected THEN [state |-> x1, out |-> "raise", nopt |-> 0]
      ELSE IF noop THEN [state |-> x2, out |-> "ok", nopt |-> 0]
      ELSE IF refused THEN [state |-> x3, out |-> "raise", nopt |-> 0]
      ELSE [state |-> [x3 EXCEPT !.sett = full,
                         !.res = <<"fit", x3.data, Eff(full), x3.pipe_fp>>],
            out |-> "ok", nopt |-> 1]

EvFit(x, kw, p, r) ==
  LET base == IF p = "nopre" THEN [E0 EXCEPT !.op = "fit"]
              ELSE EvPre(x, p, "fit")
  IN [base EXCEPT !.out = r.out, !.nopt = r.nopt,
        !.kwvals = [k \in DOMAIN kw |-> NormOf(kw[k])],
        !.rxhi = IF "range_x" \in DOMAIN kw THEN RxHi(kw["range_x"])
                 ELSE "none",
        !.streq = (\A k \in DOMAIN kw : SameStored(x.sett, k, kw[k]))
                  /\ (p = "nopre" \/ x.pipe_fp = p)]

Fit(kw, p, via) ==
  /\ via \in {"obj", "fresh"}
  /\ (via = "obj") => (W.mutate_pi /\ "params_initial" \in DOMAIN kw
                       /\ kw["params_initial"] = piobj)
  /\ LET r == FitIn(st, kw, p)
     IN  /\ st' = r.state
         /\ Conforms(st, EvFit(st, kw, p, r), st')
  /\ UNCHANGED <<plobj, piobj>>

Fit0 == Fit(<<>>, "nopre", "fresh")
Fit1(k, v, via) == k \in Keys /\ v \in Vals(k)
                   /\ Fit([x \in {k} |-> v], "nopre", via)
Fit2(k1, v1, k2, v2) ==
  /\ W.fit2
  /\ k1 \in Keys /\ k2 \in Keys /\ KeyIdx(k1) < KeyIdx(k2)
  /\ v1 \in Vals(k1) /\ v2 \in Vals(k2)
  /\ Fit([x \in {k1, k2} |-> IF x = k1 THEN v1 ELSE v2], "nopre", "fresh")
FitPre(p, via) == /\ p \in Pipes \cup BadPipes
                  /\ via \in {"obj", "fresh"}
                  /\ (via = "obj") => (W.mutate_pl /\ p = plobj)
                  /\ Fit(<<>>, p, "fresh")
FitPre1(p, k, v) == /\ W.fitpre1
                    /\ p \in Pipes \cup BadPipes /\ k \in Keys
                    /\ v \in Vals(k)
                    /\ Fit([x \in {k} |-> v], p, "fresh")

FitUnknown ==
  /\ UNCHANGED vars
  /\ Conforms(st, [E0 EXCEPT !.op = "fit_unknown", !.key = "unknown",
                             !.out = "raise"], st')

\* ------------------------------------------------------------- scan
Scan ==
  /\ LET s3 == IF "params_initial" \in Keys
                  /\ st.sett["params_initial"] = "unset"
               THEN st.sett   \* the fitter guesses privately
               ELSE st.sett
         refused == Refused(st.data, s3) \/ ~W.scannable
     IN IF st.scan # None \/ (st.res # None /\ EdeltaOn(st.sett))
        THEN /\ UNCHANGED st
             /\ Conforms(st, [E0 EXCEPT !.op = "scan"], st')
        ELSE IF refused
        THEN /\ UNCHANGED st
             /\ Conforms(st, [E0 EXCEPT !.op = "scan", !.out = "raise"], st')
        ELSE /\ st' = [st EXCEPT !.scan = <<"scan", st.data, Eff(st.sett)>>]
             /\ Conforms(st, [E0 EXCEPT !.op = "scan", !.nopt = 1], st')
  /\ UNCHANGED <<plobj, piobj>>

\* ------------------------------------------------------------- get initial
GetInit ==
  /\ "params_initial" \in Keys
  /\ piobj' = IF st.sett["params_initial"] # "unset"
              THEN st.sett["params_initial"]
              ELSE Guess(st.data, ModelOf(st.sett))
  /\ UNCHANGED <<plobj, st>>
  /\ Conforms(st, [E0 EXCEPT !.op = "getinit"], st')

\* ------------------------------------------------------------- rating
Rate(r) ==
  /\ r \in Raters
  /\ UNCHANGED vars
  /\ LET fitted == st.res # None
         e == [E0 EXCEPT !.op = "rate", !.pseudo = Pseudo(r),
                 !.ret = IF Pseudo(r) \/ ~fitted THEN "m1"
                         ELSE <<"rate", st.res, r>>,
                 !.expect = IF Pseudo(r) \/ ~fitted THEN "none"
                            ELSE <<"rate", st.res, r>>,
                 !.contnan = ~fitted,
                 !.retnum = [m1 |-> Pseudo(r) \/ ~fitted, zero |-> FALSE,
                             inrange |-> ~(Pseudo(r) \/ ~fitted)],
                 !.tree = TRUE]
     IN Conforms(st, e, st')

\* things that happen AROUND the curve and leave no trace in it: a rating
\* that is interrupted by a fault outside the library (memory, Ctrl-C), and
\* another user of the rating module who builds a rater with hyper-parameters
\* of their own (the later ratings are the ones the statement describes)
Around(kind, r) ==
  /\ kind \in {"rate_fault", "get_rater_kw"} /\ r \in Raters
  /\ ~Pseudo(r)
  /\ UNCHANGED vars
  /\ Conforms(st, [E0 EXCEPT !.op = kind], st')

\* ------------------------------------------------------------- next
Next ==
  \/ \E p \in Pipes \cup BadPipes : MutatePL(p)
  \/ \E q \in PiVals : MutatePI(q)
  \/ \E p \in Pipes \cup BadPipes, via \in {"obj", "fresh", "details", "attr"} : ApplyPre(p, via)
  \/ \E k \in Keys, via \in {"obj", "fresh"} : \E v \in Vals(k) : SetKey(k, v, via)
  \/ SetUnknown
  \/ Fit0
  \/ \E k \in Keys, via \in {"obj", "fresh"} : \E v \in Vals(k) : Fit1(k, v, via)
  \/ \E k1 \in Keys, k2 \in Keys : \E v1 \in Vals(k1), v2 \in Vals(k2) :
        Fit2(k1, v1, k2, v2)
  \/ \E p \in Pipes \cup BadPipes, via \in {"obj", "fresh"} : FitPre(p, via)
  \/ \E p \in Pipes \cup BadPipes, k \in Keys : \E v \in Vals(k) : FitPre1(p, k, v)
  \/ FitUnknown
  \/ Scan
  \/ GetInit
  \/ \E r \in Raters : Rate(r)
  \/ \E kind \in {"rate_fault", "get_rater_kw"}, r \in Raters : Around(kind, r)

Spec == Init /\ [][Next]_vars

\* ------------------------------------------------------------- invariants
TypeOK ==
  /\ plobj \in Pipes \cup BadPipes
  /\ piobj \in PiVals \cup {"nil"} \cup GuessIds
  /\ st.pipe \in Pipes /\ st.data \in Pipes
  /\ \A k \in Keys : st.sett[k] \in Vals(k) \cup {"unset", Default(k)} \cup GuessIds

\* C03: results are only ever shown for the stored settings and data
ResultsCurrent == st.res # None =>
  /\ st.res[2] = st.data /\ st.res[3] = Eff(st.sett) /\ st.res[4] = st.pipe_fp
ScanCurrent == st.scan # None =>
  /\ st.scan[2] = st.data /\ st.scan[3] = Eff(st.sett)
\* C06: a rejected request is never the reported pipeline; the data are
\* always those of a fresh curve with the reported pipeline
ReportedIsValid == st.pipe \in Pipes /\ st.pipe_fp \in Pipes \cup {"unset"}
DataMatchesReport == st.data = st.pipe
\* C03/C12: a visible result never belongs to refused settings
NoResultForRefused == st.res # None => ~Refused(st.data, st.sett)
=============================================================================
