---------------------------- MODULE RegistryOps ----------------------------
(***************************************************************************)
(* Model registry of nanite (nanite.model.logic / core, property C18):     *)
(* shared definitions.  The "world" (module ids, their keys, which fault   *)
(* each mutant carries, files and what importing them does) is written by  *)
(* the harness to the JSON file named by env REGWORLD.                     *)
(***************************************************************************)
EXTENDS Naturals, Sequences, FiniteSets, TLC, Json, IOUtils

W == JsonDeserialize(IOEnv.REGWORLD)
ToS(seq) == {seq[i] : i \in DOMAIN seq} \ {"_"}

Mods      == ToS(W.mods)           \* module objects the harness can build
Faulty    == ToS(W.faulty)         \* single-fault mutants: must be rejected
KeyOf(m)  == W.keyof[m]            \* registry key a module asks for
Files     == ToS(W.files)
\* what a file holds: "missing", "syntax", "importerr" (cannot be imported)
\* or the id of the module its code defines
Holds(f)  == W.holds[f]
Unimportable(f) == Holds(f) \in {"missing", "syntax", "importerr"}
Shipped   == ToS(W.shipped)        \* keys registered at import time

\* registry : set of <<key, module>> pairs, functional in the key
RegKeys(reg) == {p[1] : p \in reg}
Put(reg, m) == {p \in reg : p[1] # KeyOf(m)} \cup {<<KeyOf(m), m>>}
Drop(reg, m) == {p \in reg : p[1] # KeyOf(m)}

\* ancillary seeding (fit.guess_initial_parameters): per parameter the
\* ancillary value is "absent", "nan" or "val"
SeedOf(a) == IF a = "val" THEN "anc" ELSE "default"
=============================================================================
