------------------------------- MODULE Registry -------------------------------
(***************************************************************************)
(* Design of the model registry (C18): only complete, consistent models    *)
(* get in; a rejected registration or load leaves the registry, the        *)
(* interpreter's import path and the bytecode flag exactly as they were.   *)
(***************************************************************************)
EXTENDS RegistryOps

CONSTANT MaxOps
VARIABLES reg, path, dwb, out, n
vars == <<reg, path, dwb, out, n>>

Init == /\ reg = {<<k, k>> : k \in Shipped}   \* shipped module id = its key
        /\ path \in {<<"site">>, <<"plug", "site">>}   \* plugin dir may
        /\ dwb \in BOOLEAN                             \* already be on it
        /\ out = "none" /\ n = 0

Step == n < MaxOps /\ n' = n + 1

Register(m) ==
  /\ Step /\ m \in Mods
  /\ IF m \in Faulty
     THEN /\ out' = "ModelError" /\ UNCHANGED <<reg, path, dwb>>
     ELSE /\ out' = "ok" /\ reg' = Put(reg, m) /\ UNCHANGED <<path, dwb>>

Deregister(m) ==
  /\ Step /\ m \in Mods
  /\ IF KeyOf(m) \in RegKeys(reg)
     THEN /\ out' = "ok" /\ reg' = Drop(reg, m)
     ELSE /\ out' = "KeyError" /\ reg' = reg
  /\ UNCHANGED <<path, dwb>>

LoadFile(f, register) ==
  /\ Step /\ f \in Files
  /\ UNCHANGED <<path, dwb>>            \* whatever happens
  /\ IF Unimportable(f)
     THEN out' = "ModelImportError" /\ reg' = reg
     ELSE IF Holds(f) \in Faulty
     THEN out' = "ModelError" /\ reg' = reg
     ELSE /\ out' = "ok"
          /\ reg' = IF register THEN Put(reg, Holds(f)) ELSE reg

Next == \/ \E m \in Mods : Register(m) \/ Deregister(m)
        \/ \E f \in Files, r \in BOOLEAN : LoadFile(f, r)
Spec == Init /\ [][Next]_vars

\* ---------------------------------------------------------------- properties
OnlySoundModels == \A p \in reg : p[2] \notin Faulty
Functional == \A p, q \in reg : p[1] = q[1] => p = q
PathRestored == [][path' = path /\ dwb' = dwb]_vars
RejectLeavesRegistry == [][out' \notin {"ok", "none"} => reg' = reg]_vars
ShippedStayUnlessAsked ==
  [][\A k \in Shipped : (<<k, k>> \in reg /\ <<k, k>> \notin reg')
        => (out' = "ok")]_vars
=============================================================================
