-------------------------- MODULE TrainingSetTrace --------------------------
(***************************************************************************)
(* One TLC state per recorded case: the REAL load_training_set /           *)
(* compute_sample_weight output against TrainingSet.tla's expectation.     *)
(* `space` must equal the spec's own case space (a harness that silently   *)
(* skips cases is rejected).                                               *)
(***************************************************************************)
EXTENDS TrainingSet, Json, IOUtils, TLCExt

Batch == JsonDeserialize(IOEnv.TRACE_FILE)
Cases == Batch.cases
WCases == Batch.weights
Exp   == Batch.export

VARIABLES kind, k
Init == \/ (kind = "case" /\ k \in DOMAIN Cases)
        \/ (kind = "weight" /\ k \in DOMAIN WCases)
        \/ (kind = "export" /\ k = 1)
Next == UNCHANGED <<kind, k>>
Spec == Init /\ [][Next]_<<kind, k>>

\* JSON cell: [tag, n, d] with tag in "num", "nan", "inf", "-inf"
Cell(c) == IF c[1] = "nan" THEN Nan ELSE IF c[1] = "inf" THEN PInf
           ELSE IF c[1] = "-inf" THEN NInf ELSE Num(RNorm(<<c[2], c[3]>>))
Mat(m) == [i \in DOMAIN m |-> [j \in DOMAIN m[i] |-> Cell(m[i][j])]]

CaseClauses(c) ==
  LET M == Mat(c.M)
      e == Clean(M, c.y, c.impute, c.remove, c.replace)
      R == IF c.nout = 0 THEN <<>> ELSE Mat(c.outX)
      ry == IF c.nout = 0 THEN <<>> ELSE c.outy
  IN [
  C15_LoadTotal   |-> c.raised = "" \/
                      (\E i \in DOMAIN e.X : \E j \in DOMAIN e.X[i] :
                          e.X[i][j] = <<"any">>),
  C15_RowsKept    |-> (c.raised = "") => c.nout = Len(e.X),
  C15_ResponsesPaired |-> (c.raised = "" /\ c.nout = Len(e.X))
                            => \A i \in 1..c.nout : ry[i] = e.y[i],
  C15_CellsAsStated |-> (c.raised = "" /\ c.nout = Len(e.X))
                          => \A i \in 1..c.nout : \A j \in DOMAIN e.X[i] :
                                CellOK(R[i][j], e.X[i][j]),
  C15_NoNaNNoInf  |-> (c.raised = "" /\ c.impute /\ c.remove /\ c.replace
                       /\ c.nout = Len(e.X))
                        => \A i \in 1..c.nout : \A j \in DOMAIN R[i] :
                              IsNum(R[i][j]) \/ e.X[i][j] = <<"any">>,
  C15_ColumnsSorted |-> c.names_sorted
  ]

WClauses(w) == [
  C15_WeightsTotal |-> w.raised = "",
  C15_Weights |-> (w.raised = "")
                    => \A i \in DOMAIN w.y :
                         RNorm(<<w.w[i][1], w.w[i][2]>>) = RNorm(Weight(w.y, i))
  ]

EClauses(x) == [
  C15_ExportTotal |-> x.raised = "",
  C15_ExportFeatures |-> x.features_ok,
  C15_ExportResponses |-> x.responses_ok,
  C15_ExportOrder |-> x.order_ok
  ]

FailedOf(c) == {x \in DOMAIN c : ~c[x]}
Report ==
  CASE kind = "case" ->
         LET f == FailedOf(CaseClauses(Cases[k]))
         IN f = {} \/ PrintT(ToJson([case |-> k, failed |-> f]))
    [] kind = "weight" ->
         LET f == FailedOf(WClauses(WCases[k]))
         IN f = {} \/ PrintT(ToJson([weight |-> k, failed |-> f]))
    [] kind = "export" ->
         LET f == FailedOf(EClauses(Exp))
         IN f = {} \/ PrintT(ToJson([export |-> 1, failed |-> f]))
=============================================================================
