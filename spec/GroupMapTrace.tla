---------------------------- MODULE GroupMapTrace ----------------------------
(***************************************************************************)
(* Trace validation for C20.  The recorded events of one real map (fits,   *)
(* failing fits, setting edits, ratings, get_qmap calls) drive the ACTIONS  *)
(* of GroupMap.tla; a get_qmap event additionally carries the grid the     *)
(* real QMap returned, which must equal the spec's Grid.  A mismatch does   *)
(* not block the trace: its index is collected (and printed at the end),   *)
(* so one rejection never hides later ones.                                *)
(* Loading observations (one object per curve, enumerations, progress      *)
(* callbacks, refusal of uncalibrated curves) are checked per record.      *)
(***************************************************************************)
EXTENDS GroupMapOps, Json, IOUtils, TLCExt

Batch  == JsonDeserialize(IOEnv.TRACE_FILE)
Maps   == Batch.maps
Loads  == Batch.loads

VARIABLES tid, l, status, rating, shown, bad

Tr == Maps[tid]
Curves == {Tr.curves[i] : i \in DOMAIN Tr.curves}
PixelOf == [c \in Curves |-> <<Tr.pixel[c][1], Tr.pixel[c][2]>>]
Shape == <<Tr.shape[1], Tr.shape[2]>>

Init == /\ tid \in DOMAIN Maps /\ l = 1 /\ bad = {}
        /\ status = [c \in Curves |-> NoFit]
        /\ rating = [c \in Curves |-> Unrated]
        /\ shown = <<"none", <<>>>>

Ev == Tr.events[l]
Keep == UNCHANGED <<tid, bad, shown>>
Step == l <= Len(Tr.events) /\ l' = l + 1

\* the same state transformers as the actions of GroupMap.tla
Next ==
  \/ (Step /\ Ev.op = "fit" /\ status' = StFit(status, Ev.c, Ev.e, Ev.cp)
       /\ UNCHANGED rating /\ Keep)
  \/ (Step /\ Ev.op = "fitfails" /\ status' = StFails(status, Ev.c)
       /\ UNCHANGED rating /\ Keep)
  \/ (Step /\ Ev.op = "edit" /\ status' = StEdit(status, Ev.c)
       /\ UNCHANGED rating /\ Keep)
  \/ (Step /\ Ev.op = "repre" /\ status' = StEdit(status, Ev.c)
       /\ rating' = RtDrop(rating, Ev.c) /\ Keep)
  \/ (Step /\ Ev.op = "rate" /\ rating' = RtRate(rating, status, Ev.c, Ev.r)
       /\ UNCHANGED status /\ Keep)
  \/ (Step /\ Ev.op = "getmap"
       /\ LET g == GridOf(Curves, PixelOf, Shape, status, rating, Ev.f)
          IN /\ shown' = <<Ev.f, g>>
             /\ bad' = IF Ev.grid = g
                          /\ Ev.warned = WarnOwed(Curves, status, rating, Ev.f)
                       THEN bad ELSE bad \cup {l}
       /\ UNCHANGED <<tid, status, rating>>)
Spec == Init /\ [][Next]_<<tid, l, status, rating, shown, bad>>

\* at the end of a trace: report the get_qmap events that did not match
Done == l = Len(Tr.events) + 1
Report == (Done /\ bad # {}) => PrintT(ToJson([map |-> tid, badevents |-> bad]))
\* every trace must be consumed completely (no event without an action)
Consumed == Done \/ ENABLED Next

\* ---- loading records (evaluated once, at the first state of trace 1)
LoadClauses(r) == [
  C20_OnePerCurve      |-> r.count = r.expected_count,
  C20_FileOrder        |-> r.order_ok,
  C20_EnumUniquePerFile |-> r.enum_unique,
  C20_ProgressMonotone |-> r.progress_monotone,
  C20_ProgressInUnitInterval |-> r.progress_in_range,
  C20_UncalibratedRefused |-> r.refusal_ok
  ]
LoadReport ==
  (tid = 1 /\ l = 1) =>
    \A k \in DOMAIN Loads :
       LET c == LoadClauses(Loads[k])
           f == {x \in DOMAIN c : ~c[x]}
       IN f = {} \/ PrintT(ToJson([load |-> k, failed |-> f]))
=============================================================================
