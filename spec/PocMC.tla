-------------------------------- MODULE PocMC --------------------------------
(* Design-level check of the transcriptions on every small integer array.    *)
EXTENDS Poc
Arrays == UNION {[1..n -> 0..2] : n \in 1..7}
VARIABLES f, m
Init == f \in Arrays /\ m \in {"deviation_from_baseline", "frechet_direct_path"}
Next == UNCHANGED <<f, m>>
Spec == Init /\ [][Next]_<<f, m>>
\* the result is always a valid index of the array passed
ValidIndex == \A cp \in Expected(m, f) : 0 <= cp /\ cp < Len(f)
NonEmpty == Expected(m, f) # {}
\* an estimate, when there is one, lies inside the approach part
InsideApproach == (~Degenerate(f) /\ Expected(m, f) # FallbackSet(f))
                    => \A cp \in Expected(m, f) : cp < Len(Clip(f))
\* multiplying by a positive integer / adding a constant changes nothing
ScaleShiftInvariant ==
  Expected(m, [i \in DOMAIN f |-> 3 * f[i] + 2]) = Expected(m, f)
=============================================================================
