------------------------------ MODULE Features ------------------------------
(***************************************************************************)
(* Design state machine for C17: features are a function of the approach   *)
(* segment (up to a common positive force factor), its fit and the fitted  *)
(* contact point, and of nothing else; computing them changes nothing.     *)
(* The classification of the features is in FeaturesClass.tla.             *)
(***************************************************************************)
EXTENDS FeaturesClass

CONSTANTS Approaches, Fits
VARIABLES appr,     \* identity of the approach data UP TO a force factor
          scale,    \* the common factor currently applied to force and fit
          retr,     \* identity of the retract data
          fit,      \* "none" or a fit id (which fixes the contact point)
          feats     \* the feature vector last computed (a term)
vars == <<appr, scale, retr, fit, feats>>

FeatOf(a, f) == <<"features", a, f>>     \* depends on nothing else

Init == appr \in Approaches /\ scale = 1 /\ retr = 1 /\ fit = "none"
        /\ feats = <<"none">>
Compute == feats' = FeatOf(appr, fit) /\ UNCHANGED <<appr, scale, retr, fit>>
ScaleForce == scale' \in {1, 2, 3} /\ UNCHANGED <<appr, retr, fit, feats>>
PerturbRetract == retr' \in {1, 2} /\ UNCHANGED <<appr, scale, fit, feats>>
DoFit == fit' \in Fits /\ UNCHANGED <<appr, scale, retr, feats>>
DropFit == fit' = "none" /\ UNCHANGED <<appr, scale, retr, feats>>
Next == Compute \/ ScaleForce \/ PerturbRetract \/ DoFit \/ DropFit
Spec == Init /\ [][Next]_vars

\* computing features changes nothing but the returned vector
ComputeIsPure == [][feats' # feats => UNCHANGED <<appr, scale, retr, fit>>]_vars
\* two computations with the same approach data and fit agree, whatever the
\* force unit and the retract segment are
Determined == [][(feats' # feats) => feats' = FeatOf(appr, fit)]_vars
=============================================================================
