------------------------------ MODULE FitPassesClauses ---------------------------
(***************************************************************************)
(* Inside ONE fit (nanite.fit.IndentationFitter.fit): the sequence of      *)
(* optimiser passes, the interval and point mask of each pass, the unit    *)
(* frame of the quantities that cross the geometrical correction factor k, *)
(* and what is written back.  Decides C05 and the structural parts of C04  *)
(* and C11.                                                                *)
(*                                                                         *)
(* Real numbers are represented by RANKS among the sample abscissae        *)
(* (Order abstraction): sample i has rank 2*j (j-th smallest distinct      *)
(* abscissa), an interval bound has rank 2*j (coincides with a sample),    *)
(* 2*j+1 (strictly between two samples), 0 below all, or above all.        *)
(* Closed-interval semantics, zero width = whole segment, inverted         *)
(* intervals, xmin/xmax are exact in this abstraction.                     *)
(*                                                                         *)
(* Part 1: design state machine of the pass structure (model-checked).     *)
(* Part 2: clauses over one recorded fit (used by FitPassesTrace.tla).     *)
(***************************************************************************)
EXTENDS Naturals, Integers, Sequences, FiniteSets, TLC

Min(a, b) == IF a <= b THEN a ELSE b
Max(a, b) == IF a >= b THEN a ELSE b

\* ------------------------------------------------------------------ masks
\* seg : sequence of segment indices (0 approach, 1, 2, ...), xr : sequence of ranks
SegIdx(seg, s) == {i \in DOMAIN seg : seg[i] = s}
ExpectedMask(seg, s, xr, lo, hi, zero) ==
  IF zero THEN SegIdx(seg, s)
  ELSE {i \in SegIdx(seg, s) : Min(lo, hi) <= xr[i] /\ xr[i] <= Max(lo, hi)}

\* ------------------------------------------------------------------ passes
\* the pass kinds of one fit, in order
PassKinds(mode, N) ==
  CASE mode = "abs"    -> <<"abs">>
    [] mode = "rel"    -> <<"whole", "anchored", "anchored", "anchored">>
    [] mode = "edelta" -> [i \in 1..N |-> "scan"] \o <<"final">>

-----------------------------------------------------------------------------
(* Clauses over ONE recorded fit r (see harness/fitpasses.py) *)

PassMaskOK(r, p) ==
  p.mask = ExpectedMask(r.seg, r.segreq, r.xr, p.lo, p.hi, p.zero)

Clauses(r) ==
  LET np == Len(r.passes)
      plan == PassKinds(r.mode, r.nsamp)
      complete == np = Len(plan)
  IN [
  \* ------------------------------------------------------------- C05
  \* (a pass is "fuzzy" when a bound of its interval, computed from the
  \* previous contact point, falls within rounding of a sample: not judged)
  C05_MaskExact      |-> \A i \in 1..np :
                            r.passes[i].fuzzy \/ PassMaskOK(r, r.passes[i]),
  C05_MaskInSegment  |-> \A i \in 1..np :
                            r.passes[i].mask \subseteq SegIdx(r.seg, r.segreq),
  \* (for contact-point-relative ranges the statement asks for an estimate
  \* on the whole segment followed by passes anchored at the previous
  \* contact point; HOW MANY of them is the implementation's business)
  C05_PassStructure  |->
      CASE r.mode = "rel" ->
             /\ (np > 0 => r.passes[1].kind = "whole")
             /\ \A i \in 2..np : r.passes[i].kind = "anchored"
             /\ (r.success => np >= 2)
        [] r.mode = "edelta" ->
             \* at most one optimiser run per depth of the grid plus the
             \* final one (depths with too few points need none; a run whose
             \* points were fitted before may be remembered)
             /\ np <= Len(plan)
             /\ \A i \in 1..(np - 1) : r.passes[i].kind = "scan"
        [] OTHER ->
             /\ np <= Len(plan)
             /\ \A i \in 1..np : r.passes[i].kind = plan[i]
             /\ (r.success => complete),
  C05_FirstIsRequested |->
      (r.mode = "abs" /\ np > 0) => (r.passes[1].lo = r.req_lo /\ r.passes[1].hi = r.req_hi
                           /\ r.passes[1].zero = r.req_zero),
  C05_WholeFirst     |-> (r.mode = "rel" /\ np > 0) => r.passes[1].zero,
  C05_AnchoredAtPreviousCp |->
      \A i \in 1..np : (r.passes[i].kind = "anchored")
                          => r.passes[i].anchored_ok,
  C05_ScanGrid       |-> (r.mode = "edelta" /\ r.success)
                           => /\ r.scan.len = r.nsamp
                              /\ r.scan.monotone
                              /\ r.scan.first_is_deepest
                              /\ r.scan.last_is_5pct
                              /\ r.scan.passes_follow_grid,
  C05_PlateauInsideScan |-> (r.mode = "edelta" /\ r.success)
                              => r.scan.dopt_inside,
  C05_FinalFromPlateau |-> (r.mode = "edelta" /\ r.success)
                              => r.scan.final_lo_is_dopt,
  \* the reported range was optimised in SOME run of this fit (the last one,
  \* unless the implementation remembers an earlier run with these points)
  C05_ReportedRangeIsFinalMask |->
      (r.success /\ np > 0)
        => \E i \in 1..np : r.final_mask = r.passes[i].mask,
  \* with the plateau search the reported range is [optimal depth, upper]
  C05_ReportedRangeFromPlateau |->
      (r.mode = "edelta" /\ r.success)
        => r.final_mask = ExpectedMask(r.seg, r.segreq, r.xr, r.fin_lo,
                                       r.fin_hi, FALSE),
  \* whatever happened inside (also: nothing, because the library thought
  \* the settings unchanged), the reported range is the requested one
  C05_ReportedMatchesRequest |->
      (r.mode = "abs")
        => r.final_mask = ExpectedMask(r.seg, r.segreq, r.xr, r.req_lo,
                                       r.req_hi, r.req_zero),
  C05_XminXmax       |-> r.success => r.xminmax_ok,
  \* the E(depth) scan, asked for again with another sample count, has the
  \* number of samples asked for
  C05_RescanSampleCount |-> r.rescan_ok,
  \* ------------------------------------------------------------- C11
  C11_InitCpInMeasuredUnits |->
      \A i \in 1..np : r.passes[i].cp_exp \in {1, 99},
  C11_AbscissaCorrected |->
      \A i \in 1..np : r.passes[i].x_exp \in {1, 99},
  C11_StoredInitUnchanged |-> r.stored_cp_exp \in {0, 99},
  \* the reported contact point is the optimiser's one divided by k
  C11_ReportedCpInMeasuredUnits |->
      \A i \in 1..np : r.passes[i].rep_exp \in {-1, 99},
  \* with k # 1 the plateau search still scans MEASURED depths
  C11_ScanInMeasuredUnits |->
      (r.mode = "edelta" /\ r.success /\ r.k_not_one)
        => /\ r.scan.first_is_deepest /\ r.scan.last_is_5pct
           /\ r.scan.passes_follow_grid /\ r.scan.dopt_inside,
  \* ------------------------------------------------------------- C04
  C04_FitIsModel     |-> r.success => r.rel.fit_is_model,
  C04_NaNOutside     |-> r.success => r.rel.nan_outside_segment,
  C04_ResidualsWeighted |-> r.success => r.rel.resid_ok,
  C04_ChiSquare      |-> r.success => r.rel.chi_ok,
  C04_FixedKept      |-> r.success => r.rel.fixed_kept,
  C04_WithinBounds   |-> r.success => r.rel.within_bounds,
  C04_ExprSatisfied  |-> r.success => r.rel.expr_ok,
  C04_FailureLeavesNothing |->
      (~r.success) => (r.rel.cols_all_nan /\ r.stale_keys = {}),
  C04_SuccessFlag    |-> r.success_flag_present
  ]

Failed(r) == LET c == Clauses(r) IN {x \in DOMAIN c : ~c[x]}

\* C11: a fit with factor k is equivalent to the fit with k = 1
PairClauses(q) == [
  C11_ContactPointSame |-> q.cp_same,
  C11_BaselineSame     |-> q.bl_same,
  C11_FitCurveSame     |-> q.fit_same,
  C11_XminXmaxSame     |-> q.xminmax_same,
  C11_ModulusScaled    |-> q.e_scaled,
  C11_MaskSame         |-> q.mask_same ]
PairFailed(q) == LET c == PairClauses(q) IN {x \in DOMAIN c : ~c[x]}
=============================================================================
