------------------------------ MODULE Autosort ------------------------------
(***************************************************************************)
(* Layer (ii) for C14: PlusCal transcription of `preproc.autosort` (one    *)
(* label per loop of the code) which TLC checks against the declarative    *)
(* contract of AutosortContract.tla for EVERY ordered selection of the     *)
(* registered steps.  FixedPoint = FALSE is the single-pass algorithm of   *)
(* the pinned tree (kept as a negative control: TLC must refute it).       *)
(***************************************************************************)
EXTENDS AutosortContract

CONSTANT FixedPoint   \* TRUE: repeat the insertion pass until nothing moves

-----------------------------------------------------------------------------
(* Layer (ii): transcription of preproc.autosort *)

\* precursors of pid in the order the code visits them
Precursors(pid, ids) ==
  ReqSeq(pid) \o SelectSeq(OptSeq(pid), LAMBDA o : o \in Range(ids))

Without(l, e) == SelectSeq(l, LAMBDA x : x # e)
\* list.remove(step); list.insert(cix, step) with cix computed BEFORE removal
MoveTo(l, step, cix) ==
  LET r == Without(l, step)
  IN  SubSeq(r, 1, cix - 1) \o <<step>> \o SubSeq(r, cix, Len(r))

(*--algorithm autosort
variables inp \in Selections,
          out = inp,
          cur = inp,     \* `identifiers` of the current (recursive) call
          i = 1, j = 1, pre = <<>>,
          changed = TRUE, passes = 0,
          result = "running";
begin
Outer:
  while changed /\ passes <= Len(inp) /\ result = "running"
        /\ (FixedPoint \/ passes = 0) do
    changed := FALSE;
    passes := passes + 1;
    cur := out;          \* autosort(sorted_identifiers): recursive call
    i := 1;
    Pids:
      while i <= Len(cur) /\ result = "running" do
        pre := Precursors(cur[i], cur);
        j := 1;
        Pre:
          while j <= Len(pre) /\ result = "running" do
            if pre[j] \notin Range(out) then
              \* list.index raises ValueError
              result := "raise";
            elsif Pos(out, pre[j]) > Pos(out, cur[i]) then
              out := MoveTo(out, pre[j], Pos(out, cur[i]));
              changed := TRUE;
            end if;
            j := j + 1;
          end while;
        i := i + 1;
      end while;
  end while;
Check:
  if result = "running" then
    result := IF CheckOrder(out) THEN "ok" ELSE "raise";
  end if;
Emit:
  print ToJson([inp |-> inp, out |-> out, result |-> result]);
end algorithm; *)
\* BEGIN TRANSLATION
VARIABLES pc, inp, out, cur, i, j, pre, changed, passes, result

vars == << pc, inp, out, cur, i, j, pre, changed, passes, result >>

Init == (* Global variables *)
        /\ inp \in Selections
        /\ out = inp
        /\ cur = inp
        /\ i = 1
        /\ j = 1
        /\ pre = <<>>
        /\ changed = TRUE
        /\ passes = 0
        /\ result = "running"
        /\ pc = "Outer"

Outer == /\ pc = "Outer"
         /\ IF changed /\ passes <= Len(inp) /\ result = "running"
               /\ (FixedPoint \/ passes = 0)
               THEN /\ changed' = FALSE
                    /\ passes' = passes + 1
                    /\ cur' = out
                    /\ i' = 1
                    /\ pc' = "Pids"
               ELSE /\ pc' = "Check"
                    /\ UNCHANGED << cur, i, changed, passes >>
         /\ UNCHANGED << inp, out, j, pre, result >>

Pids == /\ pc = "Pids"
        /\ IF i <= Len(cur) /\ result = "running"
              THEN /\ pre' = Precursors(cur[i], cur)
                   /\ j' = 1
                   /\ pc' = "Pre"
              ELSE /\ pc' = "Outer"
                   /\ UNCHANGED << j, pre >>
        /\ UNCHANGED << inp, out, cur, i, changed, passes, result >>

Pre == /\ pc = "Pre"
       /\ IF j <= Len(pre) /\ result = "running"
             THEN /\ IF pre[j] \notin Range(out)
                        THEN /\ result' = "raise"
                             /\ UNCHANGED << out, changed >>
                        ELSE /\ IF Pos(out, pre[j]) > Pos(out, cur[i])
                                   THEN /\ out' = MoveTo(out, pre[j], Pos(out, cur[i]))
                                        /\ changed' = TRUE
                                   ELSE /\ TRUE
                                        /\ UNCHANGED << out, changed >>
                             /\ UNCHANGED result
                  /\ j' = j + 1
                  /\ pc' = "Pre"
                  /\ i' = i
             ELSE /\ i' = i + 1
                  /\ pc' = "Pids"
                  /\ UNCHANGED << out, j, changed, result >>
       /\ UNCHANGED << inp, cur, pre, passes >>

Check == /\ pc = "Check"
         /\ IF result = "running"
               THEN /\ result' = IF CheckOrder(out) THEN "ok" ELSE "raise"
               ELSE /\ TRUE
                    /\ UNCHANGED result
         /\ pc' = "Emit"
         /\ UNCHANGED << inp, out, cur, i, j, pre, changed, passes >>

Emit == /\ pc = "Emit"
        /\ PrintT(ToJson([inp |-> inp, out |-> out, result |-> result]))
        /\ pc' = "Done"
        /\ UNCHANGED << inp, out, cur, i, j, pre, changed, passes, result >>

(* Allow infinite stuttering to prevent deadlock on termination. *)
Terminating == pc = "Done" /\ UNCHANGED vars

Next == Outer \/ Pids \/ Pre \/ Check \/ Emit
           \/ Terminating

Spec == Init /\ [][Next]_vars

Termination == <>(pc = "Done")

\* END TRANSLATION

-----------------------------------------------------------------------------
(* Properties of the transcription, checked for every initial selection *)

Finished == pc = "Done"

\* C14: complete selection => permutation, valid, valid input unchanged
SortContract == Finished /\ Complete(inp) => result = "ok" /\ SortOK(inp, out)
\* an incomplete selection is never "sorted" into something that passes
IncompleteRejected == Finished /\ ~Complete(inp) => result = "raise"
\* the algorithm only ever permutes
PermInv == IsPerm(inp, out)
\* termination within the pass bound (no livelock between two orders)
PassBound == passes <= Len(inp) + 1
Converged == Finished /\ result = "ok" /\ FixedPoint => ~changed

=============================================================================
