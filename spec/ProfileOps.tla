----------------------------- MODULE ProfileOps -----------------------------
(***************************************************************************)
(* nanite command-line profile (nanite.cli.profile / rating, property      *)
(* C19): shared definitions.  The world (keys, value ids, prompts and the  *)
(* classification of the answers used in scripts) comes from the JSON file *)
(* named by env PROFWORLD, written by harness/profile_check.py.            *)
(***************************************************************************)
EXTENDS Naturals, Sequences, FiniteSets, TLC, Json, IOUtils

W == JsonDeserialize(IOEnv.PROFWORLD)
ToS(seq) == {seq[i] : i \in DOMAIN seq} \ {"_"}

Keys      == ToS(W.keys)
Default(k) == W.default[k]          \* value id of the documented default
                                    \*   ("none" for keys without default)
Prompts   == W.prompts              \* sequence of prompt ids, dialogue order
KeyOfPrompt(p) == W.promptkey[p]    \* profile key a prompt writes to
\* the fitter's acceptance predicate for a finished profile (BatchAccepts):
\* value ids that the batch fit must refuse
Unfittable == ToS(W.unfittable)

\* store semantics ------------------------------------------------------
\* file : [Keys -> value id or "absent"]
Read(file, k) == IF file[k] = "absent" THEN Default(k) ELSE file[k]
\* reading writes the default through (when there is one)
AfterRead(file, k) == IF file[k] = "absent" /\ Default(k) # "none"
                      THEN [file EXCEPT ![k] = Default(k)] ELSE file
AfterSet(file, k, v) == [file EXCEPT ![k] = v]
BatchAccepts(file) == \A k \in Keys : Read(file, k) \notin Unfittable
=============================================================================
