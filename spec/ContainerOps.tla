---------------------------- MODULE ContainerOps ----------------------------
(***************************************************************************)
(* Rating container (nanite.rate.io, property C16): the file as abstract   *)
(* state and the effect of ONE write call of a save.  Shared by the design *)
(* (Container.tla: micro-steps, crash between any two) and by the trace    *)
(* spec (ContainerTrace.tla: a recorded save interrupted at write call s   *)
(* must leave exactly the state obtained by applying s micro-steps).       *)
(*                                                                         *)
(* The write-step lists are RECORDED from real successful saves (JSON file *)
(* named by env STEPS): creating an entry, creating an entry whose raw     *)
(* data are already stored, and re-saving an existing entry.               *)
(***************************************************************************)
EXTENDS Naturals, Sequences, FiniteSets, TLC, Json, IOUtils

S == JsonDeserialize(IOEnv.STEPS)
\* per fit tag (the order and number of the 'fit ...' attributes depend on
\* the fit): sequences of [kind, name]
StepsNew(fit)      == S.new[fit]
StepsNewNoRaw(fit) == S.new_noraw[fit]
StepsResave(fit)   == S.resave[fit]
\* members an entry needs in order to be loaded (positions in the creation
\* part of a step list are irrelevant: membership by NAME)
Required == {S.required[i] : i \in DOMAIN S.required}
UserFields == {"user comment", "user name", "user rate"}

NoEntry == [fit |-> "none", members |-> {}, user |-> [f \in UserFields |-> "none"]]

\* file : [raw |-> set of file hashes, rawattr |-> hashes whose raw data set
\*         carries its "path" attribute, ana |-> [Ids -> entry]]
\* effect of one step `st` of a save of (id, hash, fit, usr) on the file
ApplyStep(file, st, id, hash, fit, usr) ==
  CASE st.kind = "raw"   -> [file EXCEPT !.raw = @ \cup {hash}]
    [] st.kind = "raw_attr" -> [file EXCEPT !.rawattr = @ \cup {hash}]
    [] st.kind = "discard" -> [file EXCEPT !.ana[id] = NoEntry]
    [] st.kind = "entry" -> [file EXCEPT !.ana[id] =
                               [NoEntry EXCEPT !.fit = fit,
                                               !.members = {"entry"}]]
    [] st.kind \in {"id_attr", "fit_attr", "ds", "meta"} ->
         [file EXCEPT !.ana[id].members = @ \cup {st.name}]
    [] st.kind = "user"  ->
         [file EXCEPT !.ana[id].members = @ \cup {st.name},
                      !.ana[id].user[st.name] = usr]
    [] OTHER -> file       \* require_group on an existing group, raw attr

RECURSIVE ApplySteps(_, _, _, _, _, _, _)
ApplySteps(file, steps, n, id, hash, fit, usr) ==
  IF n = 0 THEN file
  ELSE ApplyStep(ApplySteps(file, steps, n - 1, id, hash, fit, usr),
                 steps[n], id, hash, fit, usr)

Exists(file, id) == "entry" \in file.ana[id].members
Loadable(e) == Required \subseteq e.members
\* which step list a save of (id, hash) walks through; an entry left behind
\* by an interrupted save is discarded and written anew
Discard == <<[kind |-> "discard", name |-> "entry"]>>
RawAttrStep == <<[kind |-> "raw_attr", name |-> "path"]>>
\* raw data stored without their attribute (interrupted save) are repaired
Repair(file, hash, steps) ==
  IF hash \in file.raw /\ hash \notin file.rawattr
  THEN <<steps[1]>> \o RawAttrStep \o SubSeq(steps, 2, Len(steps))
  ELSE steps
StepsFor(file, id, hash, fit) ==
  Repair(file, hash,
    IF Exists(file, id) /\ Loadable(file.ana[id]) THEN StepsResave(fit)
    ELSE IF Exists(file, id)
         THEN SubSeq(StepsResave(fit), 1, S.resave_prefix) \o Discard
                \o SubSeq(StepsNewNoRaw(fit), S.noraw_prefix + 1,
                          Len(StepsNewNoRaw(fit)))
    ELSE IF hash \in file.raw THEN StepsNewNoRaw(fit) ELSE StepsNew(fit))
Refused(file, id, fit) ==
  Exists(file, id) /\ Loadable(file.ana[id]) /\ file.ana[id].fit # fit

Load(file)  == {id \in DOMAIN file.ana : Loadable(file.ana[id])}
=============================================================================
