----------------------------- MODULE GroupMapOps -----------------------------
(* State-transformer operators of GroupMap.tla, free of constants, so that  *)
(* the design (fixed small map) and the trace spec (one map per trace) use  *)
(* the very same definitions.                                               *)
EXTENDS Naturals, Sequences, FiniteSets, TLC

NoFit == <<"none">>
Unrated == <<"none">>
StFit(st, c, e, cp) == [st EXCEPT ![c] = <<"fit", e, cp>>]
StFails(st, c)      == [st EXCEPT ![c] = <<"failed">>]
StEdit(st, c)       == [st EXCEPT ![c] = NoFit]
RtDrop(rt, c)       == [rt EXCEPT ![c] = Unrated]
\* a rating belongs to the fit state it was computed for: it is remembered
\* together with that state and only shown while the curve is in it
RtRate(rt, st, c, r) == [rt EXCEPT ![c] = <<"rated", r, st[c]>>]

ValueIn(st, rt, f, c) ==
  CASE f = "E"  -> IF st[c][1] = "fit" THEN st[c][2] ELSE "nan"
    [] f = "cp" -> IF st[c][1] = "fit" THEN st[c][3] ELSE "nan"
    [] f = "rating" -> IF rt[c][1] = "rated" /\ rt[c][3] = st[c]
                       THEN rt[c][2] ELSE "nan"
\* grid[iy][ix] (1-based here; pixels are 0-based); NaN where no curve sits
GridOf(curves, pixel, shape, st, rt, f) ==
  [iy \in 1..shape[2] |-> [ix \in 1..shape[1] |->
     IF \E c \in curves : pixel[c] = <<ix - 1, iy - 1>>
     THEN ValueIn(st, rt, f,
                  CHOOSE c \in curves : pixel[c] = <<ix - 1, iy - 1>>)
     ELSE "nan"]]
\* a warning is owed iff some curve has no value for the feature
WarnOwed(curves, st, rt, f) == \E c \in curves : ValueIn(st, rt, f, c) = "nan"
=============================================================================
