--------------------------- MODULE ModelContractMC ---------------------------
(* Design-level check of the wrapper on every short integer abscissa.        *)
EXTENDS ModelContract
Names == {"pointwise", "prefix_sum", "index_weighted", "running_max",
          "pointwise_kwonly", "pointwise_memo"}
Xs == UNION {[1..n -> -2..2] : n \in 1..4}
VARIABLES name, x, cp
Init == name \in Names /\ x \in Xs /\ cp \in {-1, 0, 1}
Next == UNCHANGED <<name, x, cp>>
Spec == Init /\ [][Next]_<<name, x, cp>>
\* the user's function sees approach-ordered data
UserSeesApproachOrder == LET s == SeenByUser(x) IN s[1] >= s[Len(s)]
\* output has the length and order of the abscissa
OutputAligned == Len(Wrapped(name, x, 2, cp, 1)) = Len(x)
\* for a point-wise model the wrapper is invisible
PointwiseInvariant == Wrapped("pointwise", x, 2, cp, 1) = Pointwise(x, 2, cp, 1)
\* flipping the abscissa flips the output, unless both ends coincide
FlipCovariant == (x[1] # x[Len(x)]) =>
   Wrapped(name, Rev(x), 2, cp, 1) = Rev(Wrapped(name, x, 2, cp, 1))
=============================================================================
