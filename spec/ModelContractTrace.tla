-------------------------- MODULE ModelContractTrace --------------------------
(* One TLC state per recorded evaluation of a REAL registered model: the    *)
(* harness-defined order-sensitive models against the spec's Wrapped /      *)
(* Residual, and the metamorphic relations of every registered model.       *)
EXTENDS ModelContract, Json, IOUtils, TLCExt

Batch == JsonDeserialize(IOEnv.TRACE_FILE)
Evals == Batch.evals
Meta  == Batch.meta

VARIABLES kind, k
Init == \/ (kind = "eval" /\ k \in DOMAIN Evals)
        \/ (kind = "meta" /\ k \in DOMAIN Meta)
Next == UNCHANGED <<kind, k>>
Spec == Init /\ [][Next]_<<kind, k>>

EvalClauses(e) ==
  LET want == Wrapped(e.name, e.x, e.E, e.cp, e.b)
      \* (the residuals were evaluated with their own contact point)
      res  == Residual(e.name, e.x, e.data, e.E, e.cp_res, e.b, e.wd)
  IN [
  C13_ModelTotal    |-> e.raised = "",
  C13_OutputAligned |-> (e.raised = "") => Len(e.out) = Len(e.x),
  C13_WrapperOrder  |-> (e.raised = "" /\ Len(e.out) = Len(e.x))
                          => \A i \in DOMAIN e.x : e.out[i] = want[i],
  C13_UserSeesApproachOrder |-> (e.raised = "") => e.seen = SeenByUser(e.x),
  C13_InputsUnchanged |-> e.inputs_same,
  C13_ModelStableAfterResidual |-> e.stable,
  C13_DefaultResiduals |->
      (e.raised = "" /\ Len(e.res) = Len(e.x))
        => \A i \in DOMAIN e.x :
              RNorm(<<e.res[i][1], e.res[i][2]>>) = res[i]
  ]

MetaClauses(m) == [
  C13_MetaTotal        |-> m.raised = "",
  C13_ShapeAndOrder    |-> m.shape_ok,
  C13_TranslationCovariant |-> m.translation_ok,
  C13_BaselineAdditive |-> m.baseline_ok,
  C13_LinearInModuli   |-> m.linear_ok,
  C13_ContinuousAtContact |-> m.continuous_ok,
  C13_NonDecreasing    |-> m.monotone_ok,
  C13_MetaInputsUnchanged |-> m.inputs_same,
  C13_ResidualIsWeightedDifference |-> m.residual_ok
  ]

FailedOf(c) == {x \in DOMAIN c : ~c[x]}
Report ==
  IF kind = "eval"
  THEN LET f == FailedOf(EvalClauses(Evals[k]))
       IN f = {} \/ PrintT(ToJson([eval |-> k, failed |-> f]))
  ELSE LET f == FailedOf(MetaClauses(Meta[k]))
       IN f = {} \/ PrintT(ToJson([meta |-> k, failed |-> f]))
=============================================================================
