----------------------------- MODULE TrainingSet -----------------------------
(***************************************************************************)
(* Training-set cleaning (nanite.rate.rater.IndentationRater               *)
(* .load_training_set) and sample weights (property C15), written from the *)
(* statement as three separate stages over an extended-real alphabet:      *)
(*                                                                         *)
(*   cell = <<"num", n, d>> | <<"nan">> | <<"pinf">> | <<"ninf">>          *)
(*                                                                         *)
(*   Impute : a NaN cell of a zero-rated row becomes the mean of that      *)
(*            feature over the OTHER zero-rated rows that are not NaN      *)
(*   Drop   : rows that still contain a NaN go, together with the response *)
(*   Replace: +-inf become +-2 * largest finite magnitude of that feature  *)
(*                                                                         *)
(* Expected(case) is what TrainingSetTrace.tla compares the real loader's  *)
(* output with; where the statement defines nothing (a column with an      *)
(* infinity but no finite value) the expectation is "any".                 *)
(***************************************************************************)
EXTENDS Rational, Sequences, FiniteSets, TLC

Nan  == <<"nan">>
PInf == <<"pinf">>
NInf == <<"ninf">>
Num(q) == <<"num", q[1], q[2]>>
IsNum(c) == c[1] = "num"
Q(c) == <<c[2], c[3]>>
IsInf(c) == c \in {PInf, NInf}

\* extended-real mean of a non-empty sequence of non-NaN cells
RECURSIVE SumQ(_)
SumQ(s) == IF s = <<>> THEN <<0, 1>> ELSE RAdd(Q(Head(s)), SumQ(Tail(s)))
MeanCells(s) ==
  LET hasP == \E i \in DOMAIN s : s[i] = PInf
      hasN == \E i \in DOMAIN s : s[i] = NInf
  IN IF hasP /\ hasN THEN Nan
     ELSE IF hasP THEN PInf
     ELSE IF hasN THEN NInf
     ELSE Num(RDiv(SumQ(s), RInt(Len(s))))

Rows(M) == DOMAIN M
Cols(M) == DOMAIN M[1]
SeqOf(S, f(_)) ==      \* sequence of f(i) for i in S, ascending i
  LET RECURSIVE Build(_)
      Build(T) == IF T = {} THEN <<>>
                  ELSE LET m == CHOOSE x \in T : \A z \in T : x <= z
                       IN <<f(m)>> \o Build(T \ {m})
  IN Build(S)

\* ---- stage 1
Impute(M, y) ==
  [i \in Rows(M) |-> [j \in Cols(M) |->
     LET ref == {r \in Rows(M) : y[r] = 0 /\ M[r][j] # Nan}
     IN IF y[i] = 0 /\ M[i][j] = Nan /\ ref # {}
        THEN MeanCells(SeqOf(ref, LAMBDA r : M[r][j]))
        ELSE M[i][j]]]

\* ---- stage 2: indices of the rows that are kept
Kept(M) == {i \in Rows(M) : \A j \in Cols(M) : M[i][j] # Nan}

\* ---- stage 3 (on the kept rows only)
NoExtreme == <<0, 0>>    \* (a rational never has denominator 0)
Extreme(M, K, j) ==      \* largest finite magnitude of feature j, or none
  LET fin == {i \in K : IsNum(M[i][j])}
  IN IF fin = {} THEN NoExtreme
     ELSE LET m == CHOOSE i \in fin :
                     \A k \in fin : RLeq(RAbs(Q(M[k][j])), RAbs(Q(M[i][j])))
          IN RAbs(Q(M[m][j]))
Replace(M, K) ==
  [i \in K |-> [j \in Cols(M) |->
     IF IsInf(M[i][j])
     THEN LET e == Extreme(M, K, j)
          IN IF e = NoExtreme THEN <<"any">>
             ELSE IF M[i][j] = PInf THEN Num(RMul(RInt(2), e))
             ELSE Num(RNeg(RMul(RInt(2), e)))
     ELSE M[i][j]]]

\* ---- the whole loader; flags switch the stages independently
Clean(M, y, impute, remove, replace) ==
  LET M1 == IF impute THEN Impute(M, y) ELSE M
      K  == IF remove THEN Kept(M1) ELSE Rows(M)
      M2 == IF replace THEN Replace(M1, K) ELSE [i \in K |-> M1[i]]
  IN [kept |-> SeqOf(K, LAMBDA i : i),
      X |-> SeqOf(K, LAMBDA i : M2[i]),
      y |-> SeqOf(K, LAMBDA i : y[i])]

\* a cell of the real output matches the expectation
CellOK(real, exp) == exp = <<"any">> \/ real = exp

\* ---- sample weights: non-negative, sum one, equal total per class present
Classes(y) == {y[i] : i \in DOMAIN y}
Count(y, c) == Cardinality({i \in DOMAIN y : y[i] = c})
Weight(y, i) == <<1, Count(y, y[i]) * Cardinality(Classes(y))>>
=============================================================================
