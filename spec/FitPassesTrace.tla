--------------------------- MODULE FitPassesTrace ---------------------------
(* One TLC state per recorded fit / per recorded k-pair; failed clause     *)
(* names are printed as JSON (same plumbing as CurveTrace).                *)
EXTENDS FitPassesClauses, Json, IOUtils, TLCExt

Batch == JsonDeserialize(IOEnv.TRACE_FILE)
Fits  == Batch.fits
Pairs == Batch.pairs

VARIABLES kind, k
Init == \/ (kind = "fit" /\ k \in DOMAIN Fits)
        \/ (kind = "pair" /\ k \in DOMAIN Pairs)
Next == UNCHANGED <<kind, k>>
Spec == Init /\ [][Next]_<<kind, k>>

\* masks arrive as JSON lists; the clauses want sets
\* (the harness pads every list with a sentinel so that it is never empty)
ToS(seq)  == {seq[i] : i \in DOMAIN seq} \ {0}
ToSS(seq) == {seq[i] : i \in DOMAIN seq} \ {"_"}
FixPass(p) == [p EXCEPT !.mask = ToS(p.mask)]
Fix(r) == [r EXCEPT !.passes = [i \in DOMAIN r.passes |-> FixPass(r.passes[i])],
                    !.final_mask = ToS(r.final_mask),
                    !.stale_keys = ToSS(r.stale_keys)]

Report ==
  IF kind = "fit"
  THEN LET f == Failed(Fix(Fits[k]))
       IN f = {} \/ PrintT(ToJson([fit |-> k, failed |-> f]))
  ELSE LET f == PairFailed(Pairs[k])
       IN f = {} \/ PrintT(ToJson([pair |-> k, failed |-> f]))

\* process-state sentinel (see CurveTrace.tla): default-everything calls on
\* fresh objects, repeated between the configurations of every worker
Sentinels == Batch.sentinels
SentinelReport ==
  (kind = "fit" /\ k = 1) =>
    LET bad == {f \in DOMAIN Sentinels[1] :
                  Cardinality({Sentinels[j][f] : j \in DOMAIN Sentinels}) > 1}
    IN bad = {} \/ PrintT(ToJson([sentinel_fields |-> bad]))
=============================================================================
