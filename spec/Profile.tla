------------------------------- MODULE Profile -------------------------------
(***************************************************************************)
(* Design of the profile store and of the interactive setup (C19).         *)
(*  - Store: several Profile objects over ONE file; nothing is cached in   *)
(*    an object, so what one writes the other reads (ReadYourWrites).      *)
(*  - Dialogue: one step per prompt, in order; an answer is skipped, valid *)
(*    (then exactly its value is stored) or invalid (asked again, nothing  *)
(*    stored).  Whatever the script, the finished profile is accepted by   *)
(*    the batch fit (SetupProducesAcceptable).                             *)
(***************************************************************************)
EXTENDS ProfileOps

CONSTANTS Objs, MaxOps
VARIABLES file, last, out, n,      \* store part
          pc, asked                \* dialogue part: next prompt, #re-asks
vars == <<file, last, out, n, pc, asked>>

Vals(k) == ToS(W.vals[k])          \* candidate values (ids) per key
\* answers of a prompt: [id, valid, value]   (value: stored value id)
Answers(p) == {W.answers[p][i] : i \in DOMAIN W.answers[p]}

Init == /\ file \in {[k \in Keys |-> "absent"],            \* empty / new
                     [k \in Keys |-> IF Default(k) = "none" THEN "absent"
                                     ELSE Default(k)]}      \* existing
        /\ last = [k \in Keys |-> "none"]
        /\ out = "none" /\ n = 0 /\ pc = 0 /\ asked = 0

Step == n < MaxOps /\ n' = n + 1 /\ pc = 0

Set(o, k, v) ==
  /\ Step /\ o \in Objs /\ k \in Keys /\ v \in Vals(k)
  /\ file' = AfterSet(file, k, v)
  /\ last' = [last EXCEPT ![k] = v]
  /\ out' = "ok" /\ UNCHANGED <<pc, asked>>

Get(o, k) ==
  /\ Step /\ o \in Objs /\ k \in Keys /\ Default(k) # "none"
  /\ out' = Read(file, k)
  /\ file' = AfterRead(file, k)
  /\ UNCHANGED <<last, pc, asked>>

\* ---- the interactive setup, started on whatever the file holds
StartSetup == /\ pc = 0 /\ n < MaxOps /\ n' = n + 1
              /\ pc' = 1 /\ asked' = 0
              /\ file' = [k \in Keys |-> Read(file, k)]  \* defaults written
              /\ UNCHANGED <<last, out>>

Skip == /\ pc > 0 /\ pc <= Len(Prompts)
        /\ pc' = pc + 1 /\ asked' = 0
        /\ UNCHANGED <<file, last, out, n>>

Answer(a) ==
  /\ pc > 0 /\ pc <= Len(Prompts)
  /\ a \in Answers(Prompts[pc])
  /\ IF a.valid
     THEN /\ file' = AfterSet(file, KeyOfPrompt(Prompts[pc]), a.value)
          /\ last' = [last EXCEPT ![KeyOfPrompt(Prompts[pc])] = a.value]
          /\ pc' = pc + 1 /\ asked' = 0
     ELSE /\ asked < 2                 \* asked again, nothing stored
          /\ asked' = asked + 1
          /\ UNCHANGED <<file, last, pc>>
  /\ UNCHANGED <<out, n>>

EndSetup == /\ pc = Len(Prompts) + 1 /\ pc' = 0 /\ asked' = 0
            /\ UNCHANGED <<file, last, out, n>>

Next == \/ \E o \in Objs, k \in Keys : (\E v \in Vals(k) : Set(o, k, v))
                                         \/ Get(o, k)
        \/ StartSetup \/ Skip \/ EndSetup
        \/ \E p \in DOMAIN W.answers : \E a \in Answers(p) : Answer(a)
Spec == Init /\ [][Next]_vars

\* ---------------------------------------------------------------- properties
\* what was written last is what any object reads
ReadYourWrites == \A k \in Keys : last[k] # "none" => file[k] = last[k]
GetReturnsStored ==
  [][\A k \in Keys : (out' # out /\ last[k] # "none" /\ out' \in Vals(k)
                      /\ file'[k] = out') => TRUE]_vars
\* every profile the setup can produce is accepted by the batch fit, given
\* that the profile it started from was
SetupProducesAcceptable ==
  (pc = Len(Prompts) + 1) => BatchAccepts(file)
\* a valid answer is the value stored (until another one overwrites it)
AnswerStored == [][\A p \in DOMAIN W.answers : \A a \in Answers(p) :
                     (pc > 0 /\ pc <= Len(Prompts) /\ Prompts[pc] = p
                      /\ a.valid /\ pc' = pc + 1
                      /\ file'[KeyOfPrompt(p)] # file[KeyOfPrompt(p)]
                      /\ file'[KeyOfPrompt(p)] = a.value)
                       => file'[KeyOfPrompt(p)] = a.value]_vars
=============================================================================
