---------------------------- MODULE CurveClauses ----------------------------
(***************************************************************************)
(* The relational contract of ONE public call on a nanite curve object,    *)
(* stated over projected states (DESIGN.md 4.1):                           *)
(*                                                                         *)
(*   pre, post : [pipe, pipe_fp, data, sett, res, hash, scan, rawok,       *)
(*                success, short, ...]                                     *)
(*   e         : the call (operation, interned argument values, outcome,   *)
(*               optimiser invocations, argument snapshots)                *)
(*                                                                         *)
(* `res` is "none" (no result key visible), "cur" (every visible result is *)
(* bit-identical to a fresh copy with the stored pipeline and settings     *)
(* applied once), "stale" or "partial".  Each clause carries the property  *)
(* it belongs to in its name prefix (C03_, C06_, C09_, C10_).  Curve.tla   *)
(* proves (by TLC) that the design's canonical successor satisfies every   *)
(* clause; CurveTrace.tla evaluates the same clauses on every recorded     *)
(* step of the real implementation.                                        *)
(***************************************************************************)
EXTENDS Naturals, Sequences, FiniteSets, TLC

LibPart(s) == [pipe |-> s.pipe, pipe_fp |-> s.pipe_fp, data |-> s.data,
               sett |-> s.sett, res |-> s.res, hash |-> s.hash,
               scan |-> s.scan]

IsMutate(e)   == e.op \in {"mutate_pl", "mutate_pi", "mutate_attr"}
PreRequest(e) == e.op = "apply" \/ (e.op = "fit" /\ e.haspre)
Rejectable(e) == e.bad \/ e.fresh = "reject"
Ok(e)         == e.out = "ok"
Fitted(s)     == s.res = "cur" /\ s.success
Sane(s)       == s.res \in {"none", "cur"}   \* clauses about later calls are
                                             \* only owed from a sane state

\* documented don't-care: with the plateau search on, a changed LOWER range
\* bound may be ignored (old value kept, results kept)
IgnoredLowerBound(pre, e, post, k) ==
  /\ k = "range_x" /\ post.edelta
  /\ post.rx_hi = e.rxhi

Stored(pre, e, post, k, v) ==
  post.sett[k] = v \/ IgnoredLowerBound(pre, e, post, k)

Clauses(pre, e, post) == [
  \* ---------------------------------------------------------------- C03
  C03_ResultsCurrent |-> Sane(pre) => Sane(post),
  C03_ScanCurrent    |-> (pre.scan # "stale") => (post.scan # "stale"),
  C03_FitProduces    |-> (e.op = "fit" /\ Ok(e)) => post.res = "cur",
  C03_NoOpRepeat     |->
      (e.op = "fit" /\ pre.res = "cur" /\ e.streq /\ Ok(e))
        => /\ e.nopt = 0
           /\ LibPart(post) = LibPart(pre),
  INFO_SetStores     |-> (e.op = "set" /\ Ok(e))
                           => Stored(pre, e, post, e.key, e.val),
  INFO_FitStores     |-> (e.op = "fit" /\ Ok(e))
                           => \A k \in DOMAIN e.kwvals :
                                Stored(pre, e, post, k, e.kwvals[k]),
  C03_SetSameKeeps   |-> (e.op = "set" /\ e.streq /\ Ok(e))
                           => LibPart(post) = LibPart(pre),
  C03_UnknownKeyRefused |-> (e.key = "unknown") => ~Ok(e),
  C03_OnlyFitOptimises  |-> (e.op \notin {"fit", "scan", "fit_unknown"})
                              => e.nopt = 0,
  C03_ScanProduces   |-> (e.op = "scan" /\ Ok(e))
                           => post.scan \in {"cur", "withfit"},
  C03_ScanKeepsFit   |-> (e.op = "scan")
                           => /\ post.sett = pre.sett /\ post.data = pre.data
                              /\ post.res = pre.res /\ post.hash = pre.hash,
  \* ---------------------------------------------------------------- C06
  C06_RawConstant    |-> post.rawok,
  C06_PreHistoryFree |-> (PreRequest(e) /\ ~Rejectable(e) /\ Ok(e))
                           => /\ post.data = e.fresh
                              /\ post.pipe = e.p /\ post.pipe_fp = e.p,
  C06_AcceptedLikeFresh |-> (e.op = "apply" /\ ~Rejectable(e)) => Ok(e),
  C06_RejectedAgain  |-> (PreRequest(e) /\ Rejectable(e)) => ~Ok(e),
  C06_RejectedNotRemembered |->
      (PreRequest(e) /\ Rejectable(e))
        => /\ post.pipe # e.p /\ post.pipe_fp # e.p,
  C06_ReapplyChangesNothing |->
      (e.op = "apply" /\ e.streq /\ Ok(e) /\ Sane(pre) /\ ~Rejectable(e))
        => IF e.details
           THEN \* (the pipeline is re-run for its details: results may be
                \* dropped and an axis setting whose column does not exist
                \* is forgotten; the data part stays)
                /\ post.pipe = pre.pipe /\ post.pipe_fp = pre.pipe_fp
                /\ post.data = pre.data
           ELSE LibPart(post) = LibPart(pre),
  C06_OnlyPreChangesData |->
      (~PreRequest(e) /\ ~e.orphan /\ e.op # "extwrite")
        => /\ post.data = pre.data
           \* (the `preprocessing` attribute is a caller-editable default:
           \* editing it in place changes what it shows, nothing else)
           /\ (e.op = "mutate_attr" \/ post.pipe = pre.pipe),
  \* ---------------------------------------------------------------- C09
  C09_RateTotal      |-> (e.op = "rate") => Ok(e),
  C09_RatePseudo     |-> (e.op = "rate" /\ Ok(e) /\ e.pseudo)
                           => e.retnum.m1,
  C09_RateUnfitted   |-> (e.op = "rate" /\ Ok(e) /\ ~e.pseudo
                          /\ Sane(pre) /\ ~Fitted(pre))
                           => e.retnum.m1 \/ (e.retnum.zero /\ pre.short),
  \* precedence of the statement: a failed binary criterion gives 0, else
  \* undefined features give -1
  \* (owed for a fitted curve; without a fit the statement allows -1 or 0)
  C09_BinaryGivesZero |->
      (e.op = "rate" /\ Ok(e) /\ ~e.pseudo /\ Fitted(pre) /\ e.binfail)
        => e.retnum.zero,
  C09_UndefinedGivesMinusOne |->
      (e.op = "rate" /\ Ok(e) /\ ~e.pseudo /\ Fitted(pre) /\ ~e.binfail
       /\ e.contnan) => e.retnum.m1,
  C09_RateFresh      |-> (e.op = "rate" /\ Ok(e) /\ ~e.pseudo /\ Fitted(pre))
                           => e.ret = e.expect,
  \* without any fit the statement allows -1 or 0; whichever it is, it is
  \* what a fresh curve in the same state gets
  C09_RateFreshUnfitted |-> (e.op = "rate" /\ Ok(e) /\ ~e.pseudo
                             /\ Sane(pre) /\ pre.res = "none"
                             /\ e.expect # "none")
                              => (e.ret = e.expect \/ e.ret = e.expect2),
  C09_RateRange      |-> (e.op = "rate" /\ Ok(e) /\ e.tree)
                           => e.retnum.m1 \/ e.retnum.inrange,
  C09_RateFrame      |-> (e.op \in {"rate", "rate_passive", "rate_fault",
                                    "get_rater_kw"})
                           => LibPart(post) = LibPart(pre),
  C09_RateTotalPassive |-> (e.op = "rate_passive") => Ok(e),
  \* ---------------------------------------------------------------- C10
  C10_ArgsUnchanged  |-> e.argsame,
  C10_MutateInvisible |->
      IsMutate(e) => IF e.op = "mutate_attr"
                     THEN [LibPart(post) EXCEPT !.pipe = "-"]
                          = [LibPart(pre) EXCEPT !.pipe = "-"]
                     ELSE LibPart(post) = LibPart(pre),
  \* a request made with a caller-owned (possibly edited) object has the
  \* outcome of the same request made with a fresh equal value
  C10_ObjLikeFresh   |-> (PreRequest(e) /\ e.via = "obj" /\ ~Rejectable(e)
                          /\ Ok(e))
                           => /\ post.data = e.fresh
                              /\ post.pipe = e.p /\ post.pipe_fp = e.p,
  \* a rating with a caller-owned training set that was edited in place
  \* since an earlier call is the rating for its present content
  C10_RateArgByValue |-> (e.op = "rate" /\ e.via = "obj" /\ Ok(e)
                          /\ ~e.pseudo /\ Fitted(pre))
                           => e.ret = e.expect,
  C10_GetInitFrame   |-> (e.op = "getinit" /\ e.key = "none")
                           => LibPart(post) = LibPart(pre)
 ]

Failed(pre, e, post) ==
  LET c == Clauses(pre, e, post) IN {n \in DOMAIN c : ~c[n]}

\* C12: effective-settings tuple (the don't-cares are removed HERE, not in
\* the harness) and the hash relation over a set of <<tuple, hash>> pairs
EffTuple(s) ==
  [xy |-> s.xy, pipe |-> s.pipe_fp,
   sett |-> [k \in DOMAIN s.sett |->
               IF k = "optimal_fit_num_samples" /\ ~s.edelta THEN "dontcare"
               ELSE IF k = "range_x" /\ s.edelta THEN s.rx_hi
               ELSE s.sett[k]]]
=============================================================================
