----------------------------- MODULE CurveTrace -----------------------------
(***************************************************************************)
(* Code -> spec: evaluates the clauses of CurveClauses on every recorded   *)
(* step of every trace in the batch (one TLC state per step).  The trace   *)
(* carries the complete projected state after each call, so every step is  *)
(* checked from the recorded pre-state: a rejected step never hides later  *)
(* ones.  Failed clause names are printed as JSON; the harness maps them   *)
(* to properties by their prefix.                                          *)
(***************************************************************************)
EXTENDS CurveClauses, Json, IOUtils, TLCExt

Batch  == JsonDeserialize(IOEnv.TRACE_FILE)
Traces == Batch.traces

VARIABLES t, i

PreOf(tt, ii)  == IF ii = 1 THEN Traces[tt].init
                  ELSE Traces[tt].events[ii - 1].post

Init == /\ t \in DOMAIN Traces
        /\ i \in DOMAIN Traces[t].events
Next == UNCHANGED <<t, i>>
Spec == Init /\ [][Next]_<<t, i>>

Report ==
  LET e == Traces[t].events[i]
      f == Failed(PreOf(t, i), e, e.post)
  IN  f = {} \/ PrintT(ToJson([t |-> t, i |-> i, failed |-> f]))

\* C12 over the distinct <<state, hash>> observations of the whole batch:
\* equal effective tuple <=> equal hash
HashObs == Batch.hashobs
HashReport ==
  (t = 1 /\ i = 1) =>
    LET bad == {<<a, b>> \in (DOMAIN HashObs) \X (DOMAIN HashObs) :
                  /\ a < b
                  /\ (EffTuple(HashObs[a]) = EffTuple(HashObs[b]))
                       # (HashObs[a].hash = HashObs[b].hash)}
    IN bad = {} \/ PrintT(ToJson([hashpairs |-> bad]))

\* Default-everything use of every entry point on fresh objects, repeated by
\* every worker process before each chunk of histories it executes: what it
\* observes (named digests) must not depend on what the process did before
\* (module-level state, shared default objects, memo tables).
Sentinels == Batch.sentinels
SentinelReport ==
  (t = 1 /\ i = 1) =>
    LET bad == {f \in DOMAIN Sentinels[1] :
                  Cardinality({Sentinels[j][f] : j \in DOMAIN Sentinels}) > 1}
    IN bad = {} \/ PrintT(ToJson([sentinel_fields |-> bad]))
=============================================================================
