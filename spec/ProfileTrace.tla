---------------------------- MODULE ProfileTrace ----------------------------
(***************************************************************************)
(* Code -> spec for C19: recorded set/get histories on real profile files  *)
(* (each operation through a NEW Profile object), recorded runs of the     *)
(* interactive setup with scripted answers, and the batch statistics.      *)
(***************************************************************************)
EXTENDS ProfileOps, TLCExt

Batch == JsonDeserialize(IOEnv.TRACE_FILE)
Store == Batch.store
Dlg   == Batch.dialogues
Stats == Batch.batch

VARIABLES kind, t, i
Init == \/ (kind = "store" /\ t \in DOMAIN Store /\ i \in DOMAIN Store[t].events)
        \/ (kind = "dlg" /\ t \in DOMAIN Dlg /\ i = 1)
        \/ (kind = "batch" /\ t = 1 /\ i = 1)
Next == UNCHANGED <<kind, t, i>>
Spec == Init /\ [][Next]_<<kind, t, i>>

PreOf(tt, ii) == IF ii = 1 THEN Store[tt].initmap ELSE Store[tt].events[ii-1].post
\* creating a Profile object writes every default through
WithDefaults(f) == [k \in DOMAIN f |->
                      IF f[k] = "absent" /\ Default(k) # "none"
                      THEN Default(k) ELSE f[k]]

StoreClauses(pre, e) ==
  LET f1 == WithDefaults(pre)
  IN [
  C19_StoreTotal |-> e.op = "setbad" \/ e.out = "ok",
  \* a value that cannot be written is refused and nothing is lost
  C19_RefusedSetKeepsFile |-> (e.op = "setbad")
                                => (e.out = "refused" /\ e.post = f1),
  C19_SetStored  |-> (e.op = "set" /\ e.out = "ok")
                       => e.post = AfterSet(f1, e.key, e.val),
  C19_GetReturnsStored |->
      (e.op = "get" /\ e.out = "ok") => e.ret = f1[e.key],
  C19_GetKeepsFile |-> (e.op = "get" /\ e.out = "ok") => e.post = f1,
  C19_FitParams  |-> (e.op = "fitparams" /\ e.out = "ok") => e.fp_ok,
  C19_FitParamsKeepsStored |->
      (e.op = "fitparams" /\ e.out = "ok")
        => \A k \in DOMAIN f1 : (f1[k] # "absent") => e.post[k] = f1[k]
  ]

DlgClauses(d) == [
  C19_SetupTotal     |-> d.raised = "",
  C19_AnswerStored   |-> \A j \in DOMAIN d.answers :
                            d.answers[j].valid => d.answers[j].stored_ok,
  C19_InvalidNotStored |-> \A j \in DOMAIN d.answers :
                            (~d.answers[j].valid) => d.answers[j].stored_ok,
  C19_ValidNotReasked |-> \A j \in DOMAIN d.answers : d.answers[j].reasked_ok,
  C19_ProducibleFits |-> (d.raised = "") => d.fit_ok
  ]

BatchClauses(b) == [
  C19_BatchTotal |-> b.raised = "",
  C19_StatsOneRowPerCurve |-> Len(b.rows) = Len(b.expected),
  C19_StatsRows  |-> Len(b.rows) = Len(b.expected)
                       => \A j \in DOMAIN b.rows : b.rows[j] = b.expected[j]
  ]

FailedOf(c) == {x \in DOMAIN c : ~c[x]}

Report ==
  CASE kind = "store" ->
         LET f == FailedOf(StoreClauses(PreOf(t, i), Store[t].events[i]))
         IN f = {} \/ PrintT(ToJson([store |-> t, i |-> i, failed |-> f]))
    [] kind = "dlg" ->
         LET f == FailedOf(DlgClauses(Dlg[t]))
         IN f = {} \/ PrintT(ToJson([dlg |-> t, failed |-> f]))
    [] kind = "batch" ->
         LET f == FailedOf(BatchClauses(Stats))
         IN f = {} \/ PrintT(ToJson([batch |-> 1, failed |-> f]))
=============================================================================
