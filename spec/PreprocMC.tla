------------------------------ MODULE PreprocMC ------------------------------
(* A pipeline as a state machine over column VERSIONS: applying a step bumps  *)
(* the version of the columns it owns and of nothing else.                    *)
EXTENDS Preproc
Columns == {"force", "height (measured)", "height (piezo)", "tip position",
            "segment", "time"}
VARIABLES ver, present, done
vars == <<ver, present, done>>
Init == /\ ver = [c \in Columns |-> 0]
        /\ present = Columns \ {"tip position"}
        /\ done = <<>>
Apply(s) ==
  /\ Len(done) < 4 /\ s \notin {done[i] : i \in DOMAIN done}
  /\ (s = "compute_tip_position" \/ "tip position" \in present
      \/ s \in {"correct_force_offset", "smooth_height"})
  /\ ver' = [c \in Columns |->
               IF c \in Owned(s) /\ (c \in present \/ c \in Creates(s))
               THEN ver[c] + 1 ELSE ver[c]]
  /\ present' = present \cup Creates(s)
  /\ done' = Append(done, s)
Next == \E s \in Steps : Apply(s)
Spec == Init /\ [][Next]_vars
\* frame condition: a column only ever changes through a step that owns it
Frame == [][\A c \in Columns : ver'[c] # ver[c]
               => c \in Owned(done'[Len(done')])]_vars
\* raw-only columns are never touched by any step
TimeUntouched == ver["time"] = 0
NothingLost == Columns \ {"tip position"} \subseteq present
=============================================================================
