"""Fresh-object oracle (DESIGN.md 4.3).

For a curve source, a pipeline VALUE and a settings VALUE it builds a NEW
object in a new call chain with deep-copied arguments, applies the pipeline
once, fits once (rates once) and memoises digests / results by value.  It
implements the sentence "a freshly loaded copy of the same curve on which
only the currently stored preprocessing and fit settings are applied once"
and nothing more.
"""
import copy
import warnings

import numpy as np

import world
from vcommon import digest

DATA_COLS = ["force", "tip position", "height (measured)", "height (piezo)",
             "segment", "time"]
RES_SCALARS = ["chi_sqr", "hash", "success", "xmin", "xmax",
               "optimal_fit_delta"]
RES_ARRAYS = ["optimal_fit_E_array", "optimal_fit_delta_array"]
RES_COLS = ["fit", "fit residuals", "fit range"]
FP_RESULTS = RES_SCALARS + RES_ARRAYS + ["params_fitted"]


def fhex(x):
    try:
        return float(x).hex()
    except (TypeError, ValueError):
        return repr(x)


def data_digest(idnt):
    parts = []
    cols = []
    for c in DATA_COLS:
        if c in idnt:
            cols.append(c)
            parts.append(np.asarray(idnt[c]))
    return digest(np.frombuffer("|".join(cols).encode(), dtype=np.uint8),
                  *parts)


def raw_digest(idnt):
    raw = idnt._raw_data
    parts = []
    for c in sorted(raw.keys()):
        parts.append(np.frombuffer(c.encode(), dtype=np.uint8))
        parts.append(np.asarray(raw[c]))
    return digest(*parts)


def params_snapshot(params):
    return tuple((n, fhex(p.value), fhex(p.min), fhex(p.max), bool(p.vary),
                  p.expr) for n, p in params.items())


def result_snapshot(idnt):
    """Everything C03 calls 'fit results visible on a curve'."""
    fp = idnt.fit_properties
    snap = {}
    for k in RES_SCALARS:
        if k in fp:
            v = fp[k]
            snap[k] = v if isinstance(v, (str, bool)) else fhex(v)
    if "params_fitted" in fp:
        snap["params_fitted"] = params_snapshot(fp["params_fitted"])
    for k in RES_ARRAYS:
        if k in fp:
            snap[k] = digest(np.asarray(fp[k], dtype=float))
    for c in RES_COLS:
        if c in idnt:
            snap["col:" + c] = digest(np.asarray(idnt[c]))
    return snap


def first_difference(a, b):
    for k in sorted(set(a) | set(b)):
        if a.get(k, "<absent>") != b.get(k, "<absent>"):
            return k
    return None


class Oracle:
    def __init__(self, factories):
        self.factories = factories    # cid -> callable returning new curve
        self.memo_data = {}
        self.memo_fit = {}
        self.memo_scan = {}
        self.memo_rate = {}
        self.memo_guess = {}
        self.raters = {}
        self.terms = 0
        self.raw = {}

    # ------------------------------------------------------------ data
    def fresh(self, cid):
        idnt = self.factories[cid]()
        if cid not in self.raw:
            self.raw[cid] = raw_digest(idnt)
        return idnt

    def fresh_preprocessed(self, cid, pipe):
        steps, opts = pipe
        idnt = self.fresh(cid)
        with warnings.catch_warnings():
            warnings.simplefilter("ignore")
            idnt.apply_preprocessing(copy.deepcopy(list(steps)),
                                     copy.deepcopy(dict(opts)))
        return idnt

    def data(self, cid, pipe):
        """digest of the data columns of a fresh curve after `pipe`, or
        ('reject', exception class) when a fresh curve refuses it"""
        key = (cid, world._norm(pipe[0]), world._norm(pipe[1]))
        if key not in self.memo_data:
            self.terms += 1
            try:
                idnt = self.fresh_preprocessed(cid, pipe)
                self.memo_data[key] = data_digest(idnt)
            except (Exception, ) as exc:
                self.memo_data[key] = ("reject", type(exc).__name__)
        return self.memo_data[key]

    # ------------------------------------------------------------ fit
    @staticmethod
    def settings_key(settings):
        return tuple(sorted((k, world.norm(k, v))
                            for k, v in settings.items()))

    def _fitted(self, cid, pipe, settings):
        idnt = self.fresh_preprocessed(cid, pipe)
        kw = {k: copy.deepcopy(v) for k, v in settings.items()}
        with warnings.catch_warnings():
            warnings.simplefilter("ignore")
            idnt.fit_model(**kw)
        return idnt

    def fit(self, cid, pipe, settings):
        """result snapshot of a fresh curve with `pipe` applied once and
        fit_model(**settings) called once; ('raise', class) if it raises"""
        key = (cid, world._norm(pipe[0]), world._norm(pipe[1]),
               self.settings_key(settings))
        if key not in self.memo_fit:
            self.terms += 1
            try:
                idnt = self._fitted(cid, pipe, settings)
                self.memo_fit[key] = result_snapshot(idnt)
            except BaseException as exc:   # FitKeyError is a BaseException
                if isinstance(exc, (KeyboardInterrupt, SystemExit)):
                    raise
                self.memo_fit[key] = ("raise", type(exc).__name__)
        return self.memo_fit[key]

    def scan(self, cid, pipe, settings):
        key = (cid, world._norm(pipe[0]), world._norm(pipe[1]),
               self.settings_key(settings))
        if key not in self.memo_scan:
            self.terms += 1
            try:
                idnt = self.fresh_preprocessed(cid, pipe)
                # settings are stored without fitting
                for k in sorted(settings):
                    idnt.fit_properties[k] = copy.deepcopy(settings[k])
                with warnings.catch_warnings():
                    warnings.simplefilter("ignore")
                    e, d = idnt.compute_emodulus_mindelta()
                self.memo_scan[key] = {
                    "optimal_fit_E_array": digest(np.asarray(e, float)),
                    "optimal_fit_delta_array": digest(np.asarray(d, float))}
            except BaseException as exc:
                if isinstance(exc, (KeyboardInterrupt, SystemExit)):
                    raise
                self.memo_scan[key] = ("raise", type(exc).__name__)
        return self.memo_scan[key]

    # ------------------------------------------------------------ rating
    def rater(self, rargs):
        """the STANDALONE rater, assembled from the public pieces (not
        through the convenience function the curve method uses)"""
        from nanite.rate.rater import IndentationRater
        from nanite.rate.regressors import reg_dict
        from nanite.rate.rater import get_available_training_sets
        key = rater_key(rargs)
        if key not in self.raters:
            with warnings.catch_warnings():
                warnings.simplefilter("ignore")
                ts = rargs["training_set"]
                names = copy.deepcopy(rargs["names"])
                if isinstance(ts, tuple):
                    ts = copy.deepcopy(ts)
                else:
                    if ts in get_available_training_sets():
                        ts = IndentationRater.get_training_set_path(label=ts)
                    ts = IndentationRater.load_training_set(path=ts,
                                                            names=names)
                reg_cl, kw = REG_DEFAULTS[rargs["regressor"]]
                self.raters[key] = IndentationRater(
                    regressor=reg_cl(**dict(kw)), training_set=ts,
                    names=names, lda=rargs["lda"])
        return self.raters[key]

    def rate(self, cid, pipe, settings, rargs):
        """what the STANDALONE rater computes for a fresh fitted copy"""
        key = (cid, world._norm(pipe[0]), world._norm(pipe[1]),
               self.settings_key(settings), rater_key(rargs))
        if key not in self.memo_rate:
            self.terms += 1
            try:
                idnt = self._fitted(cid, pipe, settings)
                with warnings.catch_warnings():
                    warnings.simplefilter("ignore")
                    val = self.rater(rargs).rate(datasets=idnt)[0]
                self.memo_rate[key] = fhex(val)
            except BaseException as exc:
                if isinstance(exc, (KeyboardInterrupt, SystemExit)):
                    raise
                self.memo_rate[key] = ("raise", type(exc).__name__)
        return self.memo_rate[key]


def _rate_unfitted(self, cid, pipe, rargs, settings=None, applied=True):
    """what a FRESH curve with the same pipeline applied and no fit gets
    from rate_quality (the statement allows -1 or 0 there; whichever it is,
    it is the same for every object in that state)"""
    settings = settings or {}
    key = ("unfitted", cid, world._norm(pipe[0]), world._norm(pipe[1]),
           rater_key(rargs), bool(applied), self.settings_key(settings))
    if key not in self.memo_rate:
        self.terms += 1
        try:
            idnt = self.factories[cid]()
            with warnings.catch_warnings():
                warnings.simplefilter("ignore")
                if applied:
                    idnt.apply_preprocessing(copy.deepcopy(list(pipe[0])),
                                             copy.deepcopy(dict(pipe[1])))
                # (the same settings stored, nothing fitted)
                for k in sorted(settings):
                    idnt.fit_properties[k] = copy.deepcopy(settings[k])
                val = idnt.rate_quality(
                    regressor=rargs["regressor"],
                    training_set=copy.deepcopy(rargs["training_set"]),
                    names=copy.deepcopy(rargs["names"]), lda=rargs["lda"])
            self.memo_rate[key] = fhex(val)
        except BaseException as exc:
            if isinstance(exc, (KeyboardInterrupt, SystemExit)):
                raise
            self.memo_rate[key] = ("raise", type(exc).__name__)
    return self.memo_rate[key]


Oracle.rate_unfitted = _rate_unfitted


def _reg_defaults():
    """the regressor table as shipped, captured when this module is first
    imported (before any library call could have touched it)"""
    import copy as _c
    from nanite.rate.regressors import reg_dict
    return {k: (v[0], _c.deepcopy(v[1])) for k, v in reg_dict.items()}


REG_DEFAULTS = _reg_defaults()


def rater_key(rargs):
    ts = rargs["training_set"]
    if isinstance(ts, tuple):
        tsk = ("mem", digest(np.asarray(ts[0], float)),
               digest(np.asarray(ts[1], float)))
    else:
        # a directory is identified by its content
        import hashlib
        import pathlib
        h = hashlib.sha1()
        pth = pathlib.Path(str(ts))
        if pth.is_dir():
            for f in sorted(pth.glob("*")):
                if f.is_file():
                    h.update(f.name.encode())
                    h.update(f.read_bytes())
        tsk = ("path", str(ts), h.hexdigest())
    names = rargs["names"]
    return (rargs["regressor"], tsk,
            None if names is None else tuple(sorted(names)),
            rargs["lda"])
