"""Harness for GroupMap.tla (C20): synthetic maps written with afmformats'
HDF5 exporter and loaded through nanite.load_group / QMap; recorded files."""
import itertools
import json
import pathlib
import random
import shutil
import tempfile
import warnings

import numpy as np

import vcommon

P1 = ["compute_tip_position", "correct_force_offset", "correct_tip_offset"]
FEATURES = {"E": "fit: Young's modulus", "cp": "fit: contact point",
            "rating": "fit: rating"}


def write_map(path, shape, order, seed, uncalibrated=()):
    """shape (nx, ny); order: list of pixel indices (scan order)"""
    import h5py
    import synth
    nx, ny = shape
    pixels = [(i % nx, i // nx) for i in order]
    with h5py.File(path, "w") as h5:
        for k, (ix, iy) in enumerate(pixels):
            meta = {"grid index x": ix, "grid index y": iy,
                    "grid shape x": nx, "grid shape y": ny,
                    "grid size x": nx * 1e-6, "grid size y": ny * 1e-6,
                    "grid center x": 0., "grid center y": 0.,
                    "position x": (ix + .5 - nx / 2) * 1e-6,
                    "position y": (iy + .5 - ny / 2) * 1e-6}
            c = synth.make_curve(n_app=160, noise=1e-11, seed=seed + k,
                                 params={"E": 700. * (k + 2)}, enum=k,
                                 path=str(path), extra_meta=meta,
                                 drop_meta=("spring constant",)
                                 if k in uncalibrated else ())
            c.export_data(h5, fmt="hdf5", metadata=True)
    return pixels


def fmt(v):
    v = float(v)
    return "nan" if np.isnan(v) else repr(v)


def run_map(job):
    spec, tmp = job
    import nanite
    from nanite.qmap import DataMissingWarning
    tmpd = pathlib.Path(tempfile.mkdtemp(prefix="c20_", dir=tmp))
    path = tmpd / "map.h5"
    shape, order, nops, seed = spec["shape"], spec["order"], spec["nops"], \
        spec["seed"]
    rng = random.Random(seed)
    pixels = write_map(path, shape, order, seed)
    with warnings.catch_warnings():
        warnings.simplefilter("ignore")
        if spec.get("via") == "path":
            qm = nanite.QMap(path)
            grp = qm.group
        else:
            grp = nanite.load_group(path)
            qm = nanite.QMap(grp)
    curves = [f"c{k}" for k in range(len(pixels))]
    tr = {"curves": curves, "shape": list(shape),
          "pixel": {f"c{k}": list(p) for k, p in enumerate(pixels)},
          "events": [], "spec": spec, "loaded": len(grp)}
    if len(grp) != len(pixels):
        tr["events"].append({"op": "getmap", "f": "E", "c": "", "e": "",
                             "cp": "", "r": "", "warned": False,
                             "grid": [["load mismatch"]]})
        shutil.rmtree(tmpd, ignore_errors=True)
        return tr
    plan = []
    if spec.get("script"):
        # every curve fitted and rated, then one curve after the other
        # loses its fit in one of the ways there are, the rating and the
        # modulus map being read after each
        for k in range(len(curves)):
            plan += [("fit", k, None), ("rate", k, None)]
        plan += [("getmap", 0, "rating")]
        ways = ["edit", "fitfails", "repre", "refit"]
        for k in range(len(curves)):
            plan += [(ways[(k + seed) % len(ways)], k, None),
                     ("getmap", 0, "rating"), ("getmap", 0, "E")]
    for _ in range(nops):
        plan.append((rng.choices(["fit", "refit", "fitfails", "edit", "rate",
                                  "getmap", "repre"],
                                 [4, 2, 1, 1.5, 3, 5, .7])[0],
                     rng.randrange(len(curves)), None))
    for kind, k, feat in plan:
        idnt = grp[k]
        if kind in ("fit", "refit", "fitfails"):
            # the fit ops below preprocess with P1 first; when that changes
            # the pipeline it is an event of its own (results AND rating of
            # the curve are dropped)
            fp0 = idnt.fit_properties
            if list(fp0.get("preprocessing", [])) != list(P1) \
                    or "preprocessing" not in fp0:
                with warnings.catch_warnings():
                    warnings.simplefilter("ignore")
                    idnt.apply_preprocessing(list(P1))
                tr["events"].append({"op": "repre", "c": curves[k], "f": "",
                                     "e": "", "cp": "", "r": "",
                                     "warned": False, "grid": [[""]]})
        ev = {"op": kind, "c": curves[k], "f": "", "e": "", "cp": "",
              "r": "", "warned": False, "grid": [[""]]}
        with warnings.catch_warnings(record=True) as wlist:
            warnings.simplefilter("always")
            try:
                if kind in ("fit", "refit"):
                    idnt.apply_preprocessing(list(P1))
                    kw = dict(model_key="hertz_para", range_x=[0, 0],
                              gcf_k=rng.choice([1.0, .5, .25])
                              if kind == "refit" else 1.0,
                              weight_cp=rng.choice([1e-6, 5e-7, 0]))
                    idnt.fit_model(**kw)
                    fp = idnt.fit_properties
                    if fp.get("success"):
                        ev["op"] = "fit"
                        ev["e"] = fmt(fp["params_fitted"]["E"].value)
                        ev["cp"] = fmt(
                            fp["params_fitted"]["contact_point"].value * 1e9)
                    else:
                        ev["op"] = "fitfails"
                elif kind == "fitfails":
                    idnt.apply_preprocessing(list(P1))
                    idnt.fit_model(model_key="hertz_para",
                                   range_x=[1.0, 2.0])
                    ev["op"] = "fitfails" \
                        if not idnt.fit_properties.get("success") else "fit"
                    if ev["op"] == "fit":
                        fp = idnt.fit_properties
                        ev["e"] = fmt(fp["params_fitted"]["E"].value)
                        ev["cp"] = fmt(
                            fp["params_fitted"]["contact_point"].value * 1e9)
                elif kind == "edit":
                    # a changed setting drops the results
                    idnt.fit_properties["optimal_fit_num_samples"] = \
                        rng.choice([50, 60, 70, 80, 90])
                    idnt.fit_properties["weight_cp"] = \
                        rng.choice([1.1e-6, 1.2e-6, 1.3e-6, 1.4e-6])
                elif kind == "repre":
                    # preprocessing again with another pipeline
                    ev["op"] = "repre"
                    idnt.apply_preprocessing(
                        rng.choice([["compute_tip_position"],
                                    P1 + ["correct_force_slope"]]))
                elif kind == "rate":
                    rkw = rng.choice([
                        {}, {}, {"lda": True},
                        {"names": ["feat_con_apr_sum", "feat_con_idt_sum",
                                   "feat_con_bln_slope",
                                   "feat_con_idt_monotony"]}])
                    r = idnt.rate_quality(regressor="Extra Trees",
                                          training_set="zef18", **rkw)
                    ev["r"] = fmt(r)
                else:
                    f = feat if feat in FEATURES else \
                        rng.choice(list(FEATURES))
                    ev["f"] = f
                    g = qm.get_qmap(FEATURES[f], qmap_only=True)
                    ev["grid"] = [[fmt(v) for v in row] for row in g]
            except BaseException as exc:
                if isinstance(exc, (KeyboardInterrupt, SystemExit)):
                    raise
                ev["op"] = "getmap"
                ev["f"] = ev["f"] or "E"
                ev["grid"] = [["raised " + type(exc).__name__]]
            ev["warned"] = any(issubclass(w.category, DataMissingWarning)
                               for w in wlist)
        tr["events"].append(ev)
    shutil.rmtree(tmpd, ignore_errors=True)
    return tr


def map_specs(tier, rng):
    shapes = [(1, 1), (1, 3), (2, 2), (2, 3), (3, 2)]
    specs = []
    for shape in shapes:
        n = shape[0] * shape[1]
        if n <= 4:
            orders = list(itertools.permutations(range(n)))
        else:
            base = list(range(n))
            serp = [i if (i // shape[0]) % 2 == 0
                    else (i // shape[0]) * shape[0]
                    + (shape[0] - 1 - i % shape[0]) for i in base]
            colm = sorted(base, key=lambda i: (i % shape[0], i // shape[0]))
            orders = [tuple(base), tuple(serp), tuple(colm)] + \
                [tuple(rng.sample(base, n)) for _ in range(3)]
        # partial maps: some pixels have no curve at all
        if n >= 4:
            orders += [tuple(rng.sample(range(n), n - 1)) for _ in range(2)]
        for o in orders:
            specs.append({"shape": shape, "order": list(o),
                          "nops": 14 if tier == "quick" else 30,
                          "seed": rng.randrange(10 ** 6),
                          "via": rng.choice(["group", "path"])})
    for i, sp in enumerate(specs):
        sp["script"] = (i % 3 == 0)
    if tier == "quick":
        scripted = [sp for sp in specs if sp["script"]]
        specs = rng.sample(scripted, 8) + rng.sample(
            [sp for sp in specs if not sp["script"]], 16)
    else:
        specs = specs * 3
        for s in specs:
            s = dict(s)
    return specs


# --------------------------------------------------------------------------
def load_records(tmp):
    """loading: one object per curve, file order, enumerations, progress"""
    import afmformats
    import nanite
    from afmformats.errors import MissingMetaDataError
    import synth
    tmpd = pathlib.Path(tempfile.mkdtemp(prefix="c20l_", dir=tmp))
    recs = []
    data = vcommon.REPO / "tests" / "data"

    def observe(label, path, expected, override=None):
        cb = []
        rec = {"label": label, "count": -1, "expected_count": expected,
               "order_ok": True, "enum_unique": True,
               "progress_monotone": True, "progress_in_range": True,
               "refusal_ok": True, "raised": ""}
        try:
            with warnings.catch_warnings():
                warnings.simplefilter("ignore")
                grp = nanite.load_group(path, callback=cb.append,
                                        meta_override=override)
            rec["count"] = len(grp)
            per = {}
            for idnt in grp:
                per.setdefault(str(idnt.path), []).append(idnt.enum)
            rec["enum_unique"] = all(len(v) == len(set(v))
                                     for v in per.values())
            rec["order_ok"] = all(v == sorted(v) for v in per.values()) \
                and list(per) == sorted(per, key=lambda p: list(per).index(p))
            files = [str(p) for p in afmformats.find_data(
                path, modality="force-distance")]
            rec["order_ok"] = rec["order_ok"] and list(per) == \
                [f for f in files if f in per]
            rec["progress_monotone"] = all(
                b >= a for a, b in zip(cb, cb[1:]))
            rec["progress_in_range"] = all(0 <= v <= 1 for v in cb)
            rec["ncallbacks"] = len(cb)
        except BaseException as exc:
            if isinstance(exc, (KeyboardInterrupt, SystemExit)):
                raise
            rec["raised"] = type(exc).__name__
        recs.append(rec)
        return rec
    # recorded files: the number of recorded curves per afmformats
    for f in sorted(data.glob("fmt-jpk-fd_*")):
        try:
            with warnings.catch_warnings():
                warnings.simplefilter("ignore")
                n = len(afmformats.load_data(f, modality="force-distance"))
        except BaseException:
            continue
        observe(f.name, f, n)
    # synthetic files and folders
    write_map(tmpd / "m23.h5", (2, 3), list(range(6)), 1)
    observe("synthetic 2x3", tmpd / "m23.h5", 6)
    folder = tmpd / "folder"
    (folder / "sub").mkdir(parents=True)
    write_map(folder / "a.h5", (2, 2), [0, 1, 2, 3], 2)
    write_map(folder / "sub" / "b.h5", (1, 3), [0, 1, 2], 3)
    shutil.copy2(data / "fmt-jpk-fd_spot3-0192.jpk-force", folder / "c.jpk-force")
    observe("folder of 3 files", folder, 4 + 3 + 1)
    # a folder tree in which different files carry the same name, and a
    # link to one of them (a link is one more entry, as for afmformats)
    tree = tmpd / "tree"
    (tree / "sample1").mkdir(parents=True)
    (tree / "sample2").mkdir()
    write_map(tree / "sample1" / "map.h5", (2, 2), [0, 1, 2, 3], 5)
    write_map(tree / "sample2" / "map.h5", (1, 3), [0, 1, 2], 6)
    write_map(tree / "map.h5", (1, 2), [0, 1], 7)
    with warnings.catch_warnings():
        warnings.simplefilter("ignore")
        want = sum(len(afmformats.load_data(p, modality="force-distance"))
                   for p in afmformats.find_data(tree,
                                                 modality="force-distance"))
    observe("tree with equal file names", tree, want)
    # listing paths and enumerations, with a file that is found but cannot
    # be loaded (a text export that needs calibration data) between others:
    # skipped when asked to, and never listed with another file's curves
    from nanite import read as nread
    for names in (("a_map", "b_text", "c_single"),
                  ("b_map", "a_text", "c_single"),
                  ("c_map", "z_text", "a_single")):
        fold = tmpd / ("enum_" + names[0])
        fold.mkdir()
        shutil.copy2(data / "fmt-jpk-fd_map2x2_extracted.jpk-force-map",
                     fold / (names[0] + ".jpk-force-map"))
        z = np.linspace(0, 500, 60)
        dd = np.concatenate([np.zeros(30), np.linspace(0.05, 3, 30)])
        (fold / (names[1] + ".txt")).write_text("\n".join(
            "{:.4f}\t{:.6f}\t{:.6f}".format(a, b, .9 * b).replace(".", ",")
            for a, b in zip(z, dd)) + "\n")
        shutil.copy2(data / "fmt-jpk-fd_spot3-0192.jpk-force",
                     fold / (names[2] + ".jpk-force"))
        rec = {"label": f"path/enum listing {names}", "count": -1,
               "expected_count": 5, "order_ok": True, "enum_unique": True,
               "progress_monotone": True, "progress_in_range": True,
               "refusal_ok": True, "raised": ""}
        try:
            import logging
            logging.disable(logging.CRITICAL)
            with warnings.catch_warnings():
                warnings.simplefilter("ignore")
                listed = nread.get_data_paths_enum(fold, skip_errors=True)
            logging.disable(logging.NOTSET)
            rec["count"] = len(listed)
            per = {}
            for pp, en in listed:
                per.setdefault(str(pp), []).append(en)
            rec["enum_unique"] = all(len(v) == len(set(v))
                                     for v in per.values())
            rec["order_ok"] = not any(k.endswith(".txt") for k in per)
        except BaseException as exc:
            if isinstance(exc, (KeyboardInterrupt, SystemExit)):
                raise
            rec["raised"] = type(exc).__name__
        recs.append(rec)
    # refusal of uncalibrated curves
    rec = {"label": "refusal", "count": 0, "expected_count": 0,
           "order_ok": True, "enum_unique": True, "progress_monotone": True,
           "progress_in_range": True, "refusal_ok": True, "raised": ""}
    cases = []
    # (a) a file whose SECOND curve lacks the spring constant
    write_map(tmpd / "unc.h5", (1, 3), [0, 1, 2], 4, uncalibrated=(1,))
    try:
        with warnings.catch_warnings():
            warnings.simplefilter("ignore")
            nanite.load_group(tmpd / "unc.h5")
        cases.append(("second curve uncalibrated", False))
    except MissingMetaDataError:
        cases.append(("second curve uncalibrated", True))
    except BaseException as exc:
        cases.append((f"second curve uncalibrated: {type(exc).__name__}",
                      False))
    # (b) append after valid curves; (c) with tip position: accepted
    grp = nanite.IndentationGroup()
    good = synth.make_curve(n_app=50, path=str(tmpd / "x.h5"))
    grp.append(good)
    bad = synth.make_curve(n_app=50, path=str(tmpd / "x.h5"), enum=1,
                           drop_meta=("spring constant",))
    try:
        grp.append(bad)
        cases.append(("append uncalibrated after valid", False))
    except MissingMetaDataError:
        cases.append(("append uncalibrated after valid", True))
    tip = synth.make_curve(n_app=50, path=str(tmpd / "x.h5"), enum=2,
                           with_tip=True, drop_meta=("spring constant",))
    try:
        grp.append(tip)
        cases.append(("append tip-position-only curve", len(grp) == 2))
    except BaseException as exc:
        cases.append((f"append tip-position-only curve: "
                      f"{type(exc).__name__}", False))
    rec["refusal_ok"] = all(ok for _n, ok in cases)
    rec["cases"] = cases
    recs.append(rec)
    shutil.rmtree(tmpd, ignore_errors=True)
    return recs
