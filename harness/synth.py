"""Synthetic force-distance curves, maps and training sets (in memory)."""
import pathlib

import numpy as np


def model_force(model_key, tip, params):
    from nanite import model
    md = model.models_available[model_key]
    return md.module.model_func(tip, **params)


DEFAULT_PARAMS = {
    "hertz_para": dict(E=3000., R=10e-6, nu=.5),
    "hertz_cone": dict(E=3000., alpha=25., nu=.5),
    "hertz_pyr3s": dict(E=3000., alpha=15., nu=.5),
    "sneddon_spher_approx": dict(E=3000., R=10e-6, nu=.5),
    "power_layer_clifford_2009": dict(E_S=3000., E_L=20., R=10e-6, nu_S=.3,
                                      nu_L=.3, t=.1e-6),
}


def make_curve(n_app=300, n_ret=None, depth=1e-6, z0=3e-6,
               model_key="hertz_para", params=None, k=0.05, noise=0.,
               tilt=0., drift=0., seed=0, zoff=1.25e-6, baseline=0.,
               lag=0, spikes=0, path="/synthetic/curve.h5", enum=0,
               with_tip=False, extra_meta=None, cls=None, perturb=None,
               drop_meta=(), turn="linear", ring=0, adhesion=0.):
    """Return a nanite.Indentation with an approach and a retract segment.

    The tip position runs from +z0 (far away) down to -depth (indented) and
    back.  force = model(tip; contact_point=0) + baseline + tilt*tip
    + drift*time + noise.  "height (measured)" = tip - force/k + zoff so that
    `compute_tip_position` recovers tip + zoff.
    """
    from nanite import Indentation
    if n_ret is None:
        n_ret = n_app
    rng = np.random.default_rng(seed)
    tip_a = np.linspace(z0, -depth, n_app)
    tip_r = np.linspace(-depth, z0, n_ret)
    if turn == "parabolic":
        # the piezo slows down smoothly towards the turning point: with a
        # segment flag that is `lag` samples early the flagged retract
        # segment starts with a reversal of only a few picometres
        ta = np.linspace(1, 0, n_app)
        tr = np.linspace(0, 1, n_ret)
        tip_a = -depth + (z0 + depth) * ta ** 2
        tip_r = -depth + (z0 + depth) * tr ** 2
    tip = np.concatenate([tip_a, tip_r])
    pp = dict(DEFAULT_PARAMS[model_key])
    if params:
        pp.update(params)
    f = model_force(model_key, tip, dict(pp, contact_point=0., baseline=0.))
    time = np.arange(tip.size) * 1e-3
    f = f + baseline + tilt * tip + drift * time
    if noise:
        f = f + noise * rng.standard_normal(tip.size)
    if adhesion:
        # a sticky sample: pull-off dip in the retract part, `adhesion`
        # times the maximum indentation force deep
        fmax = float(np.max(f[:n_app]))
        dip = adhesion * fmax * np.exp(-((tip_r - 2e-7) / 2.5e-7) ** 2)
        f[n_app:] = f[n_app:] - dip
    if spikes:
        idx = rng.integers(int(n_app * .7), n_app, size=spikes)
        f[idx] += 5 * max(noise, 1e-11) * 20
    if ring:
        # "ringing" in the indentation part: one sample up, both neighbours
        # down by a similar amount
        ncont = int(np.sum(tip_a < 0))
        amp = 0.02 * float(np.max(np.abs(f[:n_app])) or 1e-9)
        sgn = 1 if ring > 0 else -1      # (ring < 0: down, neighbours up)
        for j in range(abs(ring)):
            i = n_app - ncont + int((j + 1) * ncont / (abs(ring) + 1))
            f[i] += sgn * amp
            f[i - 1] -= sgn * 0.95 * amp
            f[i + 1] -= sgn * 0.95 * amp
    seg = np.concatenate([np.zeros(n_app, dtype=np.uint8),
                          np.ones(n_ret, dtype=np.uint8)])
    if lag:
        # the microscope flips the piezo `lag` samples before the force peaks
        seg = np.concatenate([np.zeros(n_app - lag, dtype=np.uint8),
                              np.ones(n_ret + lag, dtype=np.uint8)])
    if perturb == "force":
        f = f.copy()
        f[n_app - 20] *= 1.0000001
    if perturb == "time":
        time = time * 1.5
    data = {"force": f,
            "height (measured)": tip - f / k + zoff,
            "time": time,
            "segment": seg}
    if with_tip:
        data["tip position"] = tip + zoff
    meta = {"path": pathlib.Path(path), "enum": enum, "spring constant": k,
            "imaging mode": "force-distance", "point count": int(tip.size)}
    if extra_meta:
        meta.update(extra_meta)
    for key in drop_meta:
        meta.pop(key, None)
    return (cls or Indentation)(data, meta)


RECORDED = [
    "fmt-jpk-fd_spot3-0192.jpk-force",
    "fmt-jpk-fd_single_tilted-baseline-drift-mitotic_2021-01-29.jpk-force",
    "fmt-jpk-fd_single_bad_2017-01-16_1.jpk-force",
]


def recorded_path(name):
    from vcommon import REPO
    return REPO / "tests" / "data" / name


def load_recorded(name, enum=0):
    from nanite import IndentationGroup
    return IndentationGroup(recorded_path(name))[enum]
