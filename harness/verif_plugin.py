"""pytest plugin: run the repository's tests under the passive recorder.
Loaded with `-p verif_plugin` (PYTHONPATH contains /verif/harness) and only
active when NANITE_VERIF_RECORD names an output directory."""
import os


def pytest_configure(config):
    out = os.environ.get("NANITE_VERIF_RECORD")
    if out and os.environ.get("NANITE_VERIF") == "1":
        import record
        record.install(out)


def pytest_sessionfinish(session, exitstatus):
    if os.environ.get("NANITE_VERIF_RECORD"):
        import record
        record.dump()
