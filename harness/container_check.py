"""Harness for Container.tla (C16): real save_hdf5 / load_hdf5 on an .h5
file, with an OSError injected at the s-th h5py write call of a save."""
import concurrent.futures as cf
import hashlib
import itertools
import json
import pathlib
import random
import shutil
import tempfile
import warnings

import numpy as np

import vcommon
import world
from vcommon import MachineryError

P1 = ["compute_tip_position", "correct_force_offset", "correct_tip_offset"]
CURVES = {       # id tag -> (file, enum)
    "A0": ("fmt-jpk-fd_spot3-0192.jpk-force", 0),
    "B1": ("fmt-jpk-fd_map2x2_extracted.jpk-force-map", 1),
    "B2": ("fmt-jpk-fd_map2x2_extracted.jpk-force-map", 2),
}
FITS = {"f1": dict(model_key="hertz_para"),
        "f2": dict(model_key="hertz_cone"),
        # same model, nearly the same settings: the fit differs only slightly
        "f3": dict(model_key="hertz_para", weight_cp=9e-7),
        # fitted on the OTHER segment: NaN exactly where f1 is defined
        "f4": dict(model_key="hertz_para", segment=1),
        # an unsuccessful fit: the fit column is NaN everywhere
        "f5": dict(model_key="hertz_para", range_x=[1.0, 2.0]),
        # settings with many significant digits (text round trip)
        "f6": dict(model_key="hertz_para",
                   range_x=[-1.7512345678e-06, 3.2198765432e-07],
                   weight_cp=1.23456789e-6, gcf_k=0.987654321),
        # bounds computed with numpy (scalars of numpy type)
        "f7": dict(model_key="hertz_para",
                   range_x=(np.float64(-2e-6), np.float64(5e-7)))}
USERS = {"u1": ("alice", 3, "first look"), "u2": ("bob", 7, "second opinion")}
WRITE_KINDS = {"fit", "fit range", "force", "fit residuals", "tip position",
               "segment"}


class Injector:
    """counts outermost h5py write calls and raises at the s-th"""
    installed = None

    def __init__(self):
        self.depth = 0
        self.count = 0
        self.fail_at = 0
        self.log = None

    @classmethod
    def install(cls):
        if cls.installed:
            return cls.installed
        import h5py
        self = cls()

        def wrap(klass, name):
            orig = getattr(klass, name)

            def w(obj, *a, **k):
                if self.depth == 0 and self.log is not None:
                    self.count += 1
                    self.log.append((name, a[0] if a else None))
                    if self.fail_at and self.count == self.fail_at:
                        raise OSError(f"injected fault at write call "
                                      f"{self.count} ({name} {a[0]!r})")
                self.depth += 1
                try:
                    return orig(obj, *a, **k)
                finally:
                    self.depth -= 1
            setattr(klass, name, w)
        wrap(h5py.Group, "create_dataset")
        wrap(h5py.Group, "create_group")
        wrap(h5py.Group, "require_group")
        wrap(h5py.AttributeManager, "__setitem__")
        wrap(h5py.AttributeManager, "create")
        wrap(h5py.AttributeManager, "modify")
        wrap(h5py.Group, "__delitem__")
        # every other way h5py has of writing into a file
        wrap(h5py.Dataset, "__setitem__")
        wrap(h5py.Dataset, "resize")
        wrap(h5py.Dataset, "write_direct")
        wrap(h5py.Group, "__setitem__")
        wrap(h5py.Group, "copy")
        wrap(h5py.Group, "move")
        cls.installed = self
        return self


def step_kind(name, arg, first_group_seen):
    if name == "require_group":
        return {"kind": "grp", "name": str(arg)}
    if name == "__delitem__":
        return {"kind": "discard", "name": "entry"}
    if name == "create_group":
        return {"kind": "entry", "name": "entry"}
    if name == "create_dataset":
        if arg in WRITE_KINDS:
            return {"kind": "ds", "name": str(arg)}
        return {"kind": "raw", "name": "raw"}
    # attribute
    if arg == "path":
        return {"kind": "raw_attr", "name": "path"}
    if arg in ("data enum", "data hash"):
        return {"kind": "id_attr", "name": str(arg)}
    if str(arg).startswith("fit "):
        return {"kind": "fit_attr", "name": str(arg)}
    if arg in ("user comment", "user name", "user rate"):
        return {"kind": "user", "name": str(arg)}
    return {"kind": "meta", "name": str(arg)}


_CACHE = {}


def fitted(cid, ftag):
    """a fresh fitted curve (never share objects between saves)"""
    from nanite import IndentationGroup
    fname, enum = CURVES[cid]
    idnt = IndentationGroup(vcommon.REPO / "tests" / "data" / fname)[enum]
    with warnings.catch_warnings():
        warnings.simplefilter("ignore")
        idnt.apply_preprocessing(list(P1))
        idnt.fit_model(**FITS[ftag])
    return idnt


def reference(cid, ftag):
    key = (cid, ftag)
    if key not in _CACHE:
        from nanite.rate.rater import IndentationRater
        idnt = fitted(cid, ftag)
        with warnings.catch_warnings():
            warnings.simplefilter("ignore")
            feats = IndentationRater.compute_features(idnt)
        _CACHE[key] = {
            "cols": {c: vcommon.digest(np.asarray(idnt[c]))
                     for c in ("force", "tip position", "segment", "fit",
                               "fit residuals", "fit range")},
            "sett": {k: world.norm(k, v) for k, v in
                     idnt.fit_properties.items() if k in world.FP_KEYS},
            "pf": world._norm(idnt.fit_properties["params_fitted"])
            if "params_fitted" in idnt.fit_properties else None,
            "hash": idnt.fit_properties["hash"],
            "feats": vcommon.digest(np.asarray(feats, float)),
        }
    return _CACHE[key]


def file_hash(cid):
    from nanite.rate.io import hash_file
    return hash_file(vcommon.REPO / "tests" / "data" / CURVES[cid][0])


def idd(cid):
    return f"{file_hash(cid)}_{CURVES[cid][1]}"


def entry_dump(grp):
    h = hashlib.sha256()
    for k in sorted(grp.attrs):
        if k in ("user time", "user time str"):
            continue
        h.update(k.encode())
        h.update(repr(grp.attrs[k]).encode())
    for k in sorted(grp):
        h.update(k.encode())
        h.update(np.asarray(grp[k][...]).tobytes())
    return h.hexdigest()[:16]


def fitpart_dump(grp):
    """everything of an entry except the user fields and the versions"""
    h = hashlib.sha256()
    for k in sorted(grp.attrs):
        if k.startswith("user ") or k.endswith(" version"):
            continue
        h.update(k.encode())
        h.update(repr(grp.attrs[k]).encode())
    for k in sorted(grp):
        h.update(k.encode())
        h.update(np.asarray(grp[k][...]).tobytes())
    return h.hexdigest()[:16]


def touch(idnt, how):
    """things a user may do with a fitted curve between two saves that
    leave the fit column alone but change fit_properties"""
    with warnings.catch_warnings():
        warnings.simplefilter("ignore")
        if how == "est":
            idnt.compute_emodulus_mindelta()
        elif how == "set":
            idnt.fit_properties["weight_cp"] = 7.5e-7
        elif how == "extra":
            idnt.fit_properties["gcf_k"] = 0.75


def project(path, ids, hash2fit):
    """h5 file -> abstract state + loader observations"""
    import h5py
    from nanite.rate import io as rio
    st = {"raw": ["_"], "rawattr": ["_"], "ana": {}, "dumps": {},
          "fitparts": {}}
    for cid in ids:
        st["ana"][idd(cid)] = {"fit": "none", "members": ["_"],
                               "user": {"user comment": "none",
                                        "user name": "none",
                                        "user rate": "none"}}
    if pathlib.Path(path).exists():
        with h5py.File(path, "r") as h5:
            if "data" in h5:
                st["raw"] += sorted(h5["data"].keys())
                st["rawattr"] += sorted(k for k in h5["data"]
                                        if "path" in h5["data"][k].attrs)
            if "analysis" in h5:
                for key in h5["analysis"]:
                    g = h5["analysis"][key]
                    mem = ["_", "entry"] + sorted(g.attrs.keys()) \
                        + sorted(g.keys())
                    ent = st["ana"].setdefault(
                        key, {"fit": "none", "members": ["_"], "user": {}})
                    ent["members"] = mem
                    ent["fit"] = hash2fit.get(
                        (key, g.attrs.get("fit hash", None)), "unknown")
                    if "fit hash" not in g.attrs:
                        ent["fit"] = "unknown"
                    for fld, pos in (("user name", 0), ("user rate", 1),
                                     ("user comment", 2)):
                        tag = "none"
                        if fld in g.attrs:
                            tag = "other"
                            for u, vals in USERS.items():
                                if g.attrs[fld] == vals[pos]:
                                    tag = u
                        ent["user"][fld] = tag
                    st["dumps"][key] = entry_dump(g)
                    st["fitparts"][key] = fitpart_dump(g)
    # loaders
    obs = {"load_ok": True, "loaded": ["_"], "rated": ["_"],
           "rt_columns": True, "rt_settings": True, "rt_user": True,
           "rt_features": True, "load_exc": ""}
    if pathlib.Path(path).exists():
        try:
            with warnings.catch_warnings():
                warnings.simplefilter("ignore")
                ratings = rio.load_hdf5(path)
                rm = rio.RateManager(path).ratings
            if len(rm) != len(ratings):
                obs["load_ok"] = False
        except BaseException as exc:
            if isinstance(exc, (KeyboardInterrupt, SystemExit)):
                raise
            obs["load_ok"] = False
            obs["load_exc"] = type(exc).__name__
            ratings = []
        from nanite.rate.rater import IndentationRater
        for r in ratings:
            ds = r["data_set"]
            cid = [c for c in ids if idd(c) ==
                   f"{rio.hash_file(ds.path) if False else ''}"]
            # identify the entry by enum and stored hash attribute
            key = None
            for c in ids:
                if CURVES[c][1] == r["enum"] and \
                        hash2fit.get((idd(c),
                                      r["fit properties"].get("hash"))):
                    key = idd(c)
                    cc = c
            if key is None:
                obs["rt_settings"] = False
                continue
            obs["loaded"].append(key)
            ftag = hash2fit[(key, r["fit properties"]["hash"])]
            ref = reference(cc, ftag)
            for c, dg in ref["cols"].items():
                if c not in ds or vcommon.digest(np.asarray(ds[c])) != dg:
                    obs["rt_columns"] = False
            fp = r["fit properties"]
            for k, nv in ref["sett"].items():
                if k not in fp or world.norm(k, fp[k]) != nv:
                    obs["rt_settings"] = False
            got = world._norm(fp["params_fitted"]) \
                if "params_fitted" in fp else None
            if got != ref["pf"]:
                obs["rt_settings"] = False
            ent = st["ana"][key]["user"]
            u = ent["user name"]
            if u in USERS:
                if (r["name"], r["rating"], r["comment"]) != (
                        USERS[ent["user name"]][0],
                        USERS[ent["user rate"]][1]
                        if ent["user rate"] in USERS else None,
                        USERS[ent["user comment"]][2]
                        if ent["user comment"] in USERS else None):
                    obs["rt_user"] = False
            try:
                with warnings.catch_warnings():
                    warnings.simplefilter("ignore")
                    feats = IndentationRater.compute_features(ds)
                if vcommon.digest(np.asarray(feats, float)) != ref["feats"]:
                    obs["rt_features"] = False
            except BaseException as exc:
                if isinstance(exc, (KeyboardInterrupt, SystemExit)):
                    raise
                obs["rt_features"] = False
        # hdf5_rated for every known curve
        import types
        for c in ids:
            fake = types.SimpleNamespace()
            fake.path = vcommon.REPO / "tests" / "data" / CURVES[c][0]
            fake.enum = CURVES[c][1]
            try:
                is_rated, rating, comment = rio.hdf5_rated(path, fake)
            except BaseException as exc:
                if isinstance(exc, (KeyboardInterrupt, SystemExit)):
                    raise
                continue
            ent = st["ana"][idd(c)]["user"]
            if is_rated and ent["user rate"] in USERS and \
                    rating == USERS[ent["user rate"]][1] and \
                    ent["user comment"] in USERS and \
                    comment == USERS[ent["user comment"]][2]:
                obs["rated"].append(idd(c))
    st.update(obs)
    return st


_SIB = {}


def sibling_container(tmp):
    """a second container (built once per worker process) that holds the
    same curves with OTHER fits; it sits next to the container under test so
    that the directory loaders see both"""
    from nanite.rate import io as rio
    import os
    key = os.getpid()
    if key not in _SIB:
        d = pathlib.Path(tempfile.mkdtemp(prefix="c16sib_", dir=tmp))
        f = d / "sibling.h5"
        with warnings.catch_warnings():
            warnings.simplefilter("ignore")
            for cid, ftag in (("B1", "f2"), ("B2", "f3"), ("A0", "f1")):
                rio.save_hdf5(f, fitted(cid, ftag), 5, "carol", "sibling")
        _SIB[key] = f
    return _SIB[key]


def dir_load_ok(dirpath, ids, hash2fit):
    """every rating that the DIRECTORY loaders return shows the columns,
    settings and features of the fit stored with it (two containers may
    hold the same curve with different fits)"""
    from nanite.rate import io as rio
    from nanite.rate.rater import IndentationRater
    try:
        with warnings.catch_warnings():
            warnings.simplefilter("ignore")
            ratings = rio.load(dirpath)
            rm = rio.RateManager(dirpath).ratings
    except BaseException as exc:
        if isinstance(exc, (KeyboardInterrupt, SystemExit)):
            raise
        return True          # (unreadable files are judged elsewhere)
    for rr in (ratings, rm):
        for r in rr:
            fp = r["fit properties"]
            hit = [(c, hash2fit.get((idd(c), fp.get("hash")))) for c in ids
                   if CURVES[c][1] == r["enum"]
                   and hash2fit.get((idd(c), fp.get("hash")))]
            if not hit:
                continue
            cc, ftag = hit[0]
            ref = reference(cc, ftag)
            ds = r["data_set"]
            for c, dg in ref["cols"].items():
                if c not in ds or vcommon.digest(np.asarray(ds[c])) != dg:
                    return False
            try:
                with warnings.catch_warnings():
                    warnings.simplefilter("ignore")
                    feats = IndentationRater.compute_features(ds)
                if vcommon.digest(np.asarray(feats, float)) != ref["feats"]:
                    return False
            except BaseException as exc:
                if isinstance(exc, (KeyboardInterrupt, SystemExit)):
                    raise
                return False
    return True


def record_steps(tmp):
    """step lists of real successful saves"""
    from nanite.rate import io as rio
    inj = Injector.install()
    path = pathlib.Path(tmp) / "steps.h5"
    out = {}

    def one(cid, ftag, utag):
        inj.count, inj.fail_at, inj.log = 0, 0, []
        name, rate, comment = USERS[utag]
        rio.save_hdf5(path, fitted(cid, ftag), rate, name, comment)
        lst = [step_kind(n, a, None) for n, a in inj.log]
        inj.log = None
        return lst
    out = {"new": {}, "new_noraw": {}, "resave": {}}
    for ftag in FITS:
        if path.exists():
            path.unlink()
        out["new"][ftag] = one("B1", ftag, "u1")
        out["new_noraw"][ftag] = one("B2", ftag, "u1")
        out["resave"][ftag] = one("B1", ftag, "u2")
    out["required"] = ["data enum", "data hash", "fit", "fit range", "force",
                       "fit residuals", "tip position", "segment",
                       "user name", "user rate", "user comment", "fit hash"]
    path.unlink()

    def lead(lst):
        n = 0
        while n < len(lst) and lst[n]["kind"] == "grp":
            n += 1
        return n
    out["resave_prefix"] = lead(out["resave"]["f1"])
    out["noraw_prefix"] = lead(out["new_noraw"]["f1"])
    return out


def run_history(job):
    """job = (history, tmpdir); history = [(cid, ftag, utag, crash_at)...]"""
    from nanite.rate import io as rio
    hist, tmp, hash2fit = job
    inj = Injector.install()
    tmpd = pathlib.Path(tempfile.mkdtemp(prefix="c16_", dir=tmp))
    path = tmpd / "rate.h5"
    ids = sorted(CURVES)
    h2f = {(k[0], k[1]): v for k, v in hash2fit}
    try:
        shutil.copy2(sibling_container(tmp), tmpd / "sibling.h5")
    except BaseException as exc:
        if isinstance(exc, (KeyboardInterrupt, SystemExit)):
            raise
    trace = {"init": project(path, ids, h2f), "events": [],
             "hist": [list(h) for h in hist]}
    for step in hist:
        cid, ftag, utag, crash = step[:4]
        how = step[4] if len(step) > 4 else ""
        pre = trace["events"][-1]["post"] if trace["events"] \
            else trace["init"]
        name, rate, comment = USERS[utag]
        idnt = fitted(cid, ftag)
        same_stored = pre["ana"].get(idd(cid), {}).get("fit") == ftag \
            and idd(cid) in pre["loaded"]
        if how and same_stored and not crash:
            # the same fit is stored already: the user does something that
            # leaves the fit column alone and saves again
            try:
                touch(idnt, how)
            except BaseException as exc:   # (nanite's own errors are
                # BaseExceptions)
                if isinstance(exc, (KeyboardInterrupt, SystemExit)):
                    raise
                how = how + "_failed"   # (not possible for this fit)
        else:
            how = ""
        inj.count, inj.fail_at, inj.log = 0, int(crash), []
        ev = {"id": idd(cid), "hash": file_hash(cid), "fit": ftag,
              "dirload_ok": True,
              "usr": utag, "crash": int(crash), "out": "ok", "exc": "",
              "touch": how or "none", "same_stored": bool(same_stored)}
        try:
            with warnings.catch_warnings():
                warnings.simplefilter("ignore")
                rio.save_hdf5(path, idnt, rate, name, comment)
        except OSError as exc:
            ev["out"] = "crash" if "injected fault" in str(exc) else "raise"
            ev["exc"] = str(exc)[:80]
        except ValueError as exc:
            ev["out"] = "refused" if "different fit" in str(exc) else "raise"
            ev["exc"] = str(exc)[:80]
        except BaseException as exc:
            if isinstance(exc, (KeyboardInterrupt, SystemExit)):
                raise
            ev["out"] = "raise"
            ev["exc"] = type(exc).__name__ + ": " + str(exc)[:80]
        ev["nwrites"] = inj.count
        inj.log, inj.fail_at = None, 0
        post = project(path, ids, h2f)
        ev["others_bytes_same"] = all(
            post["dumps"].get(k) == v for k, v in pre["dumps"].items()
            if k != ev["id"])
        ev["file_bytes_same"] = post["dumps"] == pre["dumps"] and \
            post["raw"] == pre["raw"]
        if post["load_ok"] and pathlib.Path(path).exists():
            ev["dirload_ok"] = dir_load_ok(tmpd, ids, h2f)
        ev["fitpart_same"] = bool(
            pre["fitparts"].get(ev["id"]) is None
            or post["fitparts"].get(ev["id"]) == pre["fitparts"][ev["id"]])
        ev["post"] = post
        trace["events"].append(ev)
    shutil.rmtree(tmpd, ignore_errors=True)
    return trace


def histories(tier, rng, nsteps):
    alpha = [("B1", "f1", "u1"), ("B1", "f1", "u2"), ("B1", "f2", "u1"),
             ("B2", "f1", "u1"), ("A0", "f2", "u2"), ("B1", "f3", "u2"),
             ("B1", "f4", "u2"), ("B1", "f5", "u1"), ("B2", "f6", "u1"),
             ("A0", "f7", "u1")]
    out = []
    # every single save with a crash at every write call, followed by a
    # clean save of another / the same curve and a re-save
    for s in range(1, nsteps["new"] + 2):
        out.append([("B1", "f1", "u1", s), ("B2", "f1", "u1", 0)])
        out.append([("B1", "f1", "u1", 0), ("B2", "f1", "u2", s),
                    ("B1", "f1", "u2", 0)])
    for s in range(1, nsteps["resave"] + 2):
        out.append([("B1", "f1", "u1", 0), ("B1", "f1", "u2", s),
                    ("B1", "f1", "u1", 0)])
    for s in range(1, nsteps["new"] + 2, 3):
        out.append([("B1", "f1", "u1", s), ("B1", "f1", "u2", 0)])
        out.append([("A0", "f1", "u1", 0), ("B1", "f1", "u1", s),
                    ("B1", "f2", "u1", 0)])
    # all fault-free histories of length <= 3
    for n in (1, 2, 3):
        for h in itertools.product(alpha, repeat=n):
            out.append([x + (0,) for x in h])
    # re-saves of a stored fit after the curve object was used further
    for how in ("est", "set", "extra"):
        for ftag in ("f1", "f2", "f4"):
            out.append([("B1", ftag, "u1", 0), ("B1", ftag, "u2", 0, how),
                        ("B1", ftag, "u1", 0)])
            out.append([("B2", ftag, "u1", 0), ("B1", ftag, "u1", 0),
                        ("B1", ftag, "u2", 0, how)])
    extra = 150 if tier == "quick" else 3000
    for _ in range(extra):
        n = rng.choice([2, 3, 4])
        h = [rng.choice(alpha) + (0,) for _ in range(n)]
        j = rng.randrange(n)
        h[j] = h[j][:3] + (rng.randrange(1, nsteps["new"] + 2),)
        for i in range(n):
            if i != j and rng.random() < .3:
                h[i] = h[i] + (rng.choice(["est", "set", "extra"]),)
        out.append(h)
    if tier == "quick":
        keep = out[:0]
        fixed = [h for h in out if any(x[3] for x in h)][:3 * nsteps["new"]]
        fixed += [h for h in out if any(len(x) > 4 for x in h)][:18]
        rest = [h for h in out if h not in fixed]
        rng.shuffle(rest)
        out = fixed + rest[:220]
    return out


def validate(ctx, traces, steps_path, label, batch=300):
    failed = {}
    states = 0
    for b0 in range(0, len(traces), batch):
        chunk = traces[b0:b0 + batch]
        path = ctx.scratch / f"c16_batch_{label}_{b0}.json"
        slimmed = []
        for t in chunk:
            def sl(p):
                return {k: v for k, v in p.items()
                        if k not in ("dumps", "load_exc")}
            slimmed.append({"init": sl(t["init"]), "events": [
                dict({k: v for k, v in e.items() if k not in ("exc",)},
                     post=sl(e["post"])) for e in t["events"]]})
        path.write_text(json.dumps(vcommon.jsonable({"traces": slimmed})))
        res = vcommon.tlc("ContainerTrace.tla", "ContainerTrace.cfg",
                          ctx.scratch, env={"TRACE_FILE": path,
                                            "STEPS": steps_path},
                          workers=1, coverage=False, timeout=3600,
                          jvm_opts=["-Xmx8g"])
        path.unlink()
        if res.violated or res.error:
            raise MachineryError("ContainerTrace failed:\n"
                                 + vcommon.err_excerpt(res.stdout))
        states += res.distinct
        for obj in res.printed():
            if "failed" in obj:
                failed[(b0 + obj["t"] - 1, obj["i"] - 1)] = \
                    sorted(obj["failed"])
    return failed, states
