"""Concrete value catalogue ("world") behind the abstract ids of Curve.tla.

A world maps small ids (P1, q2, r1 ...) to concrete Python values and states,
per value, the facts the TLA+ side needs as tables: normal-form class
(NormEq), strict equality class (Python == and same container type), whether
the fitter must refuse it (BadVal), whether a pipeline must be rejected
(BadPipes).  BadVal / BadPipes are DECLARED here from the design tables of
DESIGN.md 3.1.1 -- they are never obtained by running the code under test.

Values are interned dynamically as well (see Interner) so that arbitrary
values met in recorded traces get ids.
"""
import copy
import json
import math

import numpy as np

FP_KEYS = ["model_key", "optimal_fit_edelta", "optimal_fit_num_samples",
           "params_initial", "preprocessing", "preprocessing_options",
           "range_type", "range_x", "segment", "weight_cp", "gcf_k",
           "x_axis", "y_axis", "method", "method_kws"]

FP_DEFAULT = dict(model_key="hertz_para", optimal_fit_edelta=False,
                  optimal_fit_num_samples=100, params_initial=None,
                  preprocessing=[], preprocessing_options={},
                  range_type="absolute", range_x=[0, 0], segment=0,
                  weight_cp=1e-6, gcf_k=1.0, x_axis="tip position",
                  y_axis="force", method="leastsq", method_kws={})

SETTING_KEYS = [k for k in FP_KEYS
                if k not in ("preprocessing", "preprocessing_options")]

# ---------------------------------------------------------------- pipelines
TIP = "compute_tip_position"
PIPES = {
    "P0": ([], {}),
    "P1": ([TIP, "correct_force_offset", "correct_tip_offset"], {}),
    "P2": ([TIP, "correct_tip_offset", "correct_force_slope",
            "correct_force_offset"],
           {"correct_force_slope": {"region": "baseline",
                                    "strategy": "shift"}}),
    # same steps as P1, other options
    "P1b": ([TIP, "correct_force_offset", "correct_tip_offset"],
            {"correct_tip_offset": {"method": "frechet_direct_path"}}),
    # same steps and option KEYS as P1b, another inner value
    "P1d": ([TIP, "correct_force_offset", "correct_tip_offset"],
            {"correct_tip_offset": {"method": "gradient_zero_crossing"}}),
    # same steps as P1, options for a step that is not in the list (ignored
    # by the steps, but a different pipeline VALUE)
    "P1c": ([TIP, "correct_force_offset", "correct_tip_offset"],
            {"correct_force_slope": {"region": "all"}}),
    "P3": ([TIP, "correct_tip_offset", "correct_split_approach_retract",
            "correct_force_offset"], {}),
    "P4": ([TIP, "correct_tip_offset", "correct_force_slope"],
           {"correct_force_slope": {"region": "all", "strategy": "drift"},
            "correct_tip_offset": {"method": "gradient_zero_crossing"}}),
    "P5": ([TIP, "smooth_height", "correct_tip_offset"], {}),
    # contact-point methods that fit (their estimate can fall outside of the
    # data on bad curves, where the documented fallback applies)
    "P6": ([TIP, "correct_force_offset", "correct_tip_offset"],
           {"correct_tip_offset": {"method": "fit_constant_line"}}),
    "P7": ([TIP, "correct_force_offset", "correct_tip_offset"],
           {"correct_tip_offset": {"method": "fit_constant_polynomial"}}),
    "P8": ([TIP, "correct_force_offset", "correct_tip_offset"],
           {"correct_tip_offset": {"method": "fit_line_polynomial"}}),
    "P9": ([TIP, "correct_force_offset", "correct_tip_offset"],
           {"correct_tip_offset": {"method": "deviation_from_baseline"}}),
    # smoothing after differently treated tip positions (same segmentation)
    "P10": ([TIP, "correct_tip_offset", "smooth_height"], {}),
    "P11": ([TIP, "correct_tip_offset", "smooth_height"],
            {"correct_tip_offset": {"method": "gradient_zero_crossing"}}),
    "P12": ([TIP, "smooth_height"], {}),
    # segment discovery (with and without a slope correction before it, so
    # that the switch lands on different samples) followed by smoothing
    "P13": ([TIP, "correct_tip_offset", "correct_force_slope",
             "correct_split_approach_retract", "smooth_height"],
            {"correct_force_slope": {"region": "all", "strategy": "drift"}}),
    "P14": ([TIP, "correct_split_approach_retract", "smooth_height"], {}),
    "P15": ([TIP, "correct_tip_offset", "correct_force_slope",
             "correct_split_approach_retract", "smooth_height"],
            {"correct_force_slope": {"region": "baseline",
                                     "strategy": "shift"}}),
}
BADPIPES = {
    "B1": ([TIP, "bogus_step"], {}),                       # unknown, last
    "B2": (["correct_tip_offset"], {}),                    # missing prereq
    "B3": ([TIP, "correct_force_offset", "correct_tip_offset"],
           {"correct_tip_offset": {"method": "no_such_method"}}),
    "B4": (["bogus_step", TIP], {}),                       # unknown, first
    "B5": ([TIP, "correct_tip_offset", "correct_force_slope"],
           {"correct_force_slope": {"region": "nowhere"}}),  # bad option val
    "B6": ([TIP, "correct_tip_offset"],
           {"correct_tip_offset": {"no_such_option": 1}}),  # bad option name
    "B7": ([TIP, "correct_force_slope", "correct_tip_offset"], {}),  # order
}


def pipe_value(pid):
    steps, opts = (PIPES.get(pid) or BADPIPES[pid])
    return copy.deepcopy(list(steps)), copy.deepcopy(dict(opts))


# ---------------------------------------------------------------- settings
def make_params(model_key, **over):
    """lmfit.Parameters from the model defaults with overrides; an override
    may be a value or a dict of Parameter attributes."""
    from nanite import model
    params = model.models_available[model_key].get_parameter_defaults()
    for name, val in over.items():
        if isinstance(val, dict):
            params[name].set(**val)
        else:
            params[name].set(value=val)
    return params


# recipes: id -> (key, constructor, bad?)   constructor returns a fresh value
def _p(model_key, **over):
    return lambda: make_params(model_key, **over)


def _v(val):
    return lambda: copy.deepcopy(val)


def _p_hist(model_key, **over):
    """the same VALUES as _p(model_key, **over), but on objects with a
    history: values assigned through the attribute after other values had
    been set (init_value differs), fit bookkeeping left over from an earlier
    optimisation (stderr, correl), user data attached.  None of this can
    influence a fit."""
    def make():
        params = make_params(model_key)
        for name, val in over.items():
            params[name].set(value=float(val) * 1.25 + 1.0)
            params[name].value = val
        for i, par in enumerate(params.values()):
            par.stderr = 0.125 * (i + 1)
            par.correl = {"other": 0.5}
            par.user_data = {"note": "kept from an earlier fit"}
        return params
    return make


CATALOG = {
    "model_key": {
        "m_para": (_v("hertz_para"), False),
        "m_cone": (_v("hertz_cone"), False),
        "m_pyr": (_v("hertz_pyr3s"), False),
        "m_bad": (_v("no_such_model"), True),
    },
    "params_initial": {
        # the model a params value belongs to is in PARAMS_MODEL
        "q_para_a": (_p("hertz_para", E=5000.), False),
        "q_para_near": (_p("hertz_para", E=5000.000001), False),
        "q_para_b": (_p("hertz_para", E=5000., R=8e-6), False),
        "q_para_cp": (_p("hertz_para", E=2000., contact_point=1e-7), False),
        "q_para_fixE": (_p("hertz_para", E={"value": 2500., "vary": False}),
                        False),
        "q_para_min": (_p("hertz_para", E={"value": 4000., "min": 10.}),
                       False),
        "q_para_max": (_p("hertz_para", E={"value": 4000., "max": 1e5}),
                       False),
        "q_para_expr": (_p("hertz_para", E=4000.,
                           baseline={"expr": "0*E"}), False),
        # q_para_a again, on an object with a history
        "q_para_a_hist": (_p_hist("hertz_para", E=5000.), False),
        # expression-constrained parameter with bounds of its own (lmfit
        # clips the expression value to them: they influence the result)
        "q_para_expr_max": (_p("hertz_para", E=4000.,
                               baseline={"expr": "0*E", "max": 1e-11}),
                            False),
        "q_para_expr_min": (_p("hertz_para", E=4000.,
                               baseline={"expr": "0*E", "min": -1e-11}),
                            False),
        # pairs that differ in nothing but a bound (q_para_4k / q_para_min /
        # q_para_max) or in nothing but a constraint expression of a
        # parameter that does not vary anyway and keeps its initial value
        # (q_para_4k / q_para_exprR): seeds C03i, C10i
        "q_para_4k": (_p("hertz_para", E=4000.), False),
        "q_para_exprR": (_p("hertz_para", E=4000.,
                            R={"expr": "E/4000.*1e-05"}), False),
        "q_cone_a": (_p("hertz_cone", E=4000.), False),
        "q_cone_b": (_p("hertz_cone", E=4000., alpha=30.), False),
        "q_pyr_a": (_p("hertz_pyr3s", E=4000.), False),
    },
    "range_x": {
        "r_all": (_v([0, 0]), False),
        "r_all_f": (_v([0.0, 0.0]), False),          # int vs float
        "r_in": (_v([-4e-7, 2e-7]), False),
        "r_in_t": (_v((-4e-7, 2e-7)), False),        # tuple variant
        "r_in2": (_v([-6e-7, 2e-7]), False),         # other lower bound
        # near-equal neighbours (a tolerant comparison must not merge them)
        "r_in_near": (_v([-4.05e-7, 2e-7]), False),  # 5 nm off
        "r_in_near2": (_v([-4e-7, 2.04e-7]), False),
        "r_in3": (_v([-4e-7, 4e-7]), False),         # other upper bound
        "r_inv": (_v([2e-7, -4e-7]), False),         # inverted (legal)
        "r_rel": (_v([-5e-7, 3e-7]), False),
        "r_inv2": (_v([3e-7, -4e-7]), False),        # inverted, other upper
        "r_tiny": (_v([-1e-10, 1e-10]), False),      # hardly any sample
        # equal non-zero bounds: the whole segment without the plateau
        # search, but an upper bound of their own with it
        "r_eq1": (_v([1e-7, 1e-7]), False),
        "r_eq3": (_v([3e-7, 3e-7]), False),
        "r_adv1": (_v([1.0, 10.0]), False),          # collide when a list is
        "r_adv2": (_v([1.01, 0.0]), False),          # encoded w/o separators
        "r_nan": (_v([0.0, float("nan")]), True),
        "r_len3": (_v([0, 1e-7, 2e-7]), True),
    },
    "range_type": {
        "t_abs": (_v("absolute"), False),
        "t_rel": (_v("relative cp"), False),
        "t_bad": (_v("relative"), True),
    },
    "segment": {
        "s_0": (_v(0), False),
        "s_1": (_v(1), False),
        "s_app": (_v("approach"), False),
        "s_ret": (_v("retract"), False),
        "s_bad": (_v(0.5), True),
    },
    "weight_cp": {
        "w_def": (_v(1e-6), False),
        "w_half": (_v(5e-7), False),
        "w_near": (_v(1.0000001e-6), False),
        "w_off": (_v(0), False),
        "w_offF": (_v(False), False),
    },
    "gcf_k": {
        "k_1": (_v(1.0), False),
        "k_1i": (_v(1), False),
        "k_half": (_v(0.5), False),
        "k_near": (_v(0.50000001), False),
        "k_quarter": (_v(0.25), False),
        "k_061": (_v(0.6135), False),
    },
    "method": {
        "me_lsq": (_v("leastsq"), False),
        "me_nm": (_v("nelder"), False),
        "me_bad": (_v("no_such_minimizer"), True),
    },
    "method_kws": {
        "mk_0": (_v({}), False),
        # (no max_nfev here: a fit that lmfit ABORTS at the evaluation limit
        # is not reproducible from run to run, even within one process; a
        # bit-for-bit comparison with a fresh copy would be a coin toss)
        "mk_a": (_v({"ftol": 1e-10}), False),
        "mk_b": (_v({"ftol": 1e-12}), False),
        # the same number written as int / as float inside the dictionary
        "mk_f_int": (_v({"factor": 10}), False),
        "mk_f_float": (_v({"factor": 10.0}), False),
        "mk_f_other": (_v({"factor": 50}), False),
    },
    "optimal_fit_edelta": {
        "e_off": (_v(False), False),
        "e_on": (_v(True), False),
    },
    "optimal_fit_num_samples": {
        "n_100": (_v(100), False),
        "n_8": (_v(8), False),
        "n_10": (_v(10), False),
    },
    "x_axis": {
        "x_tip": (_v("tip position"), False),
    },
    "y_axis": {
        "y_force": (_v("force"), False),
    },
}

PARAMS_MODEL = {"q_para_a_hist": "hertz_para",
                "q_para_4k": "hertz_para", "q_para_exprR": "hertz_para",
                "q_para_expr_max": "hertz_para",
                "q_para_expr_min": "hertz_para",
                "q_para_near": "hertz_para", "q_para_max": "hertz_para", "q_para_expr": "hertz_para",
                "q_para_a": "hertz_para", "q_para_b": "hertz_para",
                "q_para_cp": "hertz_para", "q_para_fixE": "hertz_para",
                "q_para_min": "hertz_para", "q_cone_a": "hertz_cone",
                "q_cone_b": "hertz_cone", "q_pyr_a": "hertz_pyr3s"}
MODEL_OF = {"m_para": "hertz_para", "m_cone": "hertz_cone",
            "m_pyr": "hertz_pyr3s", "m_bad": "no_such_model"}
# cone and pyramid share their parameter names: a cone parameter set is
# acceptable for the pyramid model and vice versa
PARAM_NAMES = {"hertz_para": ("E", "R", "nu", "contact_point", "baseline"),
               "hertz_cone": ("E", "alpha", "nu", "contact_point",
                              "baseline"),
               "hertz_pyr3s": ("E", "alpha", "nu", "contact_point",
                               "baseline")}


def value(key, vid):
    return CATALOG[key][vid][0]()


def is_bad(key, vid):
    return CATALOG[key][vid][1]


def key_of(vid):
    for k, d in CATALOG.items():
        if vid in d:
            return k
    raise KeyError(vid)


# ---------------------------------------------------------------- Norm
def norm(key, val):
    """Representation-normalised form of a settings value (hashable, JSON
    friendly): tuple == list, int == float == bool, dict order irrelevant,
    "approach" == 0, Parameters -> tuple of attribute tuples."""
    import lmfit
    if key == "segment":
        if val == "approach":
            val = 0
        elif val == "retract":
            val = 1
    return _norm(val)


def _norm(val):
    import lmfit
    if isinstance(val, lmfit.Parameters):
        return ("params",) + tuple(
            (name, _norm(p.value), _norm(p.min), _norm(p.max),
             bool(p.vary), p.expr) for name, p in val.items())
    if isinstance(val, (bool, np.bool_)):
        return ("num", float(val))
    if isinstance(val, (int, float, np.integer, np.floating)):
        f = float(val)
        if math.isnan(f):
            return ("num", "nan")
        return ("num", f)
    if isinstance(val, str):
        return ("str", val)
    if val is None:
        return ("none",)
    if isinstance(val, (list, tuple)):
        return ("seq",) + tuple(_norm(v) for v in val)
    if isinstance(val, np.ndarray):
        return ("seq",) + tuple(_norm(v) for v in val.tolist())
    if isinstance(val, dict):
        return ("map",) + tuple(sorted((str(k), _norm(v))
                                       for k, v in val.items()))
    return ("repr", repr(val))


def strict(key, val):
    """Equality class under Python's own == plus container type: what the
    library may legitimately use to decide 'nothing changed'."""
    import lmfit
    if key == "segment":
        if val == "approach":
            val = 0
        elif val == "retract":
            val = 1
    return _strict(val)


def _strict(val):
    import lmfit
    if isinstance(val, lmfit.Parameters):
        return _norm(val)
    if isinstance(val, (list, tuple)):
        return (type(val).__name__,) + tuple(_strict(v) for v in val)
    if isinstance(val, dict):
        return ("map",) + tuple(sorted((str(k), _strict(v))
                                       for k, v in val.items()))
    return _norm(val)


class Interner:
    """Content-addressed ids for hashable keys: equal values get equal ids
    in every process (traces from different worker processes are validated
    together and hashes are compared across them)."""

    def __init__(self, prefix):
        self.prefix = prefix
        self.ids = {}
        self.rev = {}

    def __call__(self, key):
        if key not in self.ids:
            import hashlib
            h = hashlib.sha1(repr(key).encode()).hexdigest()[:12]
            i = f"{self.prefix}{h}"
            self.ids[key] = i
            self.rev[i] = key
        return self.ids[key]


# --------------------------------------------------------------------------
# worlds for Curve.tla (design runs and TLC-generated walks)
# --------------------------------------------------------------------------
RATERS = {
    "R_none": dict(regressor="none", training_set="zef18", names=None,
                   lda=None),
    "R_None": dict(regressor="None", training_set="zef18", names=None,
                   lda=None),
    "R_et": dict(regressor="Extra Trees", training_set="zef18", names=None,
                 lda=None, tree=True),
    "R_rf": dict(regressor="Random Forest", training_set="zef18",
                 names=None, lda=None, tree=True),
    "R_dt": dict(regressor="Decision Tree", training_set="zef18",
                 names=None, lda=None, tree=True),
    "R_ada": dict(regressor="AdaBoost", training_set="zef18", names=None,
                  lda=None, tree=True),
    "R_gtb": dict(regressor="Gradient Tree Boosting", training_set="zef18",
                  names=None, lda=None),
    "R_svr": dict(regressor="SVR (RBF kernel)", training_set="zef18",
                  names=None, lda=None),
    "R_svr_ldaF": dict(regressor="SVR (RBF kernel)", training_set="zef18",
                       names=None, lda=False),
    "R_svrl": dict(regressor="SVR (linear kernel)", training_set="zef18",
                   names=None, lda=None),
    "R_svrl_ldaF": dict(regressor="SVR (linear kernel)",
                        training_set="zef18", names=None, lda=False),
    "R_et_ldaF": dict(regressor="Extra Trees", training_set="zef18",
                      names=None, lda=False, tree=True),
    "R_et_names": dict(regressor="Extra Trees", training_set="zef18",
                       names=["feat_con_apr_sum", "feat_con_idt_sum",
                              "feat_bin_size", "feat_con_bln_slope"],
                       lda=None, tree=True),
    # the same continuous features plus a binary exclusion criterion
    "R_et_names_bin": dict(regressor="Extra Trees", training_set="zef18",
                           names=["feat_con_apr_sum", "feat_con_idt_sum",
                                  "feat_bin_size", "feat_con_bln_slope",
                                  "feat_bin_cp_position"],
                           lda=None, tree=True),
    "R_et_names_con": dict(regressor="Extra Trees", training_set="zef18",
                           names=["feat_con_apr_sum", "feat_con_idt_sum",
                                  "feat_con_bln_slope"],
                           lda=None, tree=True),
    "R_et_lda": dict(regressor="Extra Trees", training_set="zef18",
                     names=None, lda=True, tree=True),
    # in-memory (X, y) training set and a user directory (resolved lazily)
    "R_et_mem": dict(regressor="Extra Trees", training_set="__mem__",
                     names=None, lda=None, tree=True),
    "R_rf_dir": dict(regressor="Random Forest", training_set="__dir__",
                     names=None, lda=None, tree=True),
    # caller-owned training sets whose CONTENT changes between calls while
    # the object / the directory stays the same (variants A and B)
    "R_et_memA": dict(regressor="Extra Trees", training_set="__memobj__A",
                      names=None, lda=None, tree=True),
    "R_et_memB": dict(regressor="Extra Trees", training_set="__memobj__B",
                      names=None, lda=None, tree=True),
    # A with the INTERIOR rows of X in another order (corners untouched)
    "R_et_memC": dict(regressor="Extra Trees", training_set="__memobj__C",
                      names=None, lda=None, tree=True),
    "R_svr_memA": dict(regressor="SVR (linear kernel)",
                       training_set="__memobj__A", names=None, lda=None),
    "R_rf_dirA": dict(regressor="Random Forest", training_set="__dirobj__A",
                      names=None, lda=None, tree=True),
    "R_rf_dirB": dict(regressor="Random Forest", training_set="__dirobj__B",
                      names=None, lda=None, tree=True),
}

_RESOLVED = {}


def _variant_xy(variant):
    """two training sets of equal shape and different content"""
    if "__mem__" not in _RESOLVED:
        from nanite.rate import IndentationRater
        X, y = IndentationRater.load_training_set()
        _RESOLVED["__mem__"] = (X[::4].copy(), y[::4].copy())
    X, y = _RESOLVED["__mem__"]
    X, y = X.copy(), y.copy()
    if variant == "B":
        y = y[::-1].copy()
    if variant == "C":
        X[10:-10] = X[10:-10][::-1].copy()
    return X, y


def resolve_rater(rid, holder=None):
    """concrete rater arguments (fresh objects on every call for tuples);
    `holder` (a dict owned by one executor) keeps the caller-owned objects
    of the A/B variants alive between calls"""
    import copy as _copy
    r = dict(RATERS[rid])
    ts = r["training_set"]
    if isinstance(ts, str) and ts.startswith("__memobj__"):
        X, y = _variant_xy(ts[-1])
        if holder is None:
            r["training_set"] = (X, y)
        else:
            if "memobj" not in holder:
                holder["memobj"] = (X.copy(), y.copy())
            # in-place edit of the arrays the library has seen before
            holder["memobj"][0][:] = X
            holder["memobj"][1][:] = y
            r["training_set"] = holder["memobj"]
        return r
    if isinstance(ts, str) and ts.startswith("__dirobj__"):
        import pathlib
        import shutil
        import tempfile
        from nanite.rate import IndentationRater
        hold = holder if holder is not None else {}
        if "dirobj" not in hold:
            src = IndentationRater.get_training_set_path("zef18")
            dst = tempfile.mkdtemp(prefix="nanite_verif_tsobj_")
            shutil.copytree(src, dst + "/ts_user")
            hold["dirobj"] = dst + "/ts_user"
            hold["dirobj_resp"] = (pathlib.Path(hold["dirobj"])
                                   / "train_response.txt").read_text()
        resp = hold["dirobj_resp"]
        if ts[-1] == "B":
            lines = resp.splitlines()
            head = [ln for ln in lines if ln.startswith("#")]
            body = [ln for ln in lines if not ln.startswith("#")]
            resp = "\n".join(head + body[::-1]) + "\n"
        (pathlib.Path(hold["dirobj"]) / "train_response.txt").write_text(resp)
        r["training_set"] = hold["dirobj"]
        return r
    if r["training_set"] == "__mem__":
        if "__mem__" not in _RESOLVED:
            from nanite.rate import IndentationRater
            X, y = IndentationRater.load_training_set()
            _RESOLVED["__mem__"] = (X[::4].copy(), y[::4].copy())
        X, y = _RESOLVED["__mem__"]
        r["training_set"] = (X.copy(), y.copy())
    elif r["training_set"] == "__dir__":
        if "__dir__" not in _RESOLVED:
            import shutil
            import tempfile
            from nanite.rate import IndentationRater
            src = IndentationRater.get_training_set_path("zef18")
            dst = tempfile.mkdtemp(prefix="nanite_verif_ts_")
            shutil.copytree(src, dst + "/ts_user")
            _RESOLVED["__dir__"] = dst + "/ts_user"
        r["training_set"] = _RESOLVED["__dir__"]
    return r

SLICES = {
    # preprocessing requests (valid / rejected), also through fit_model and
    # through a caller-owned (steps, options) object that is edited in place
    "pre": dict(pipes=["P0", "P1", "P2", "P1b", "P1d"],
                badpipes=["B1", "B2", "B3"],
                keys={"model_key": ["m_para", "m_cone"]},
                raters=["R_et"], mutate_pl=True, fitpre1=True),
    "pre2": dict(pipes=["P0", "P1", "P1c", "P3"],
                 badpipes=["B4", "B5", "B6", "B7"],
                 keys={"weight_cp": ["w_def", "w_off"]},
                 raters=[], mutate_pl=True, fitpre1=True),
    # caller-owned Parameters objects: passed, returned, edited in place
    "alias": dict(pipes=["P1"], badpipes=[],
                  keys={"params_initial": ["q_para_a", "q_para_cp",
                                           "q_para_fixE"],
                        "gcf_k": ["k_1", "k_half"]},
                  raters=[], mutate_pi=True, fit2=True),
    "alias2": dict(pipes=["P1"], badpipes=[],
                   keys={"params_initial": ["q_para_cp", "q_para_min"],
                         "range_type": ["t_abs", "t_rel"],
                         "gcf_k": ["k_1", "k_quarter"]},
                   raters=[], mutate_pi=True),
    # initial parameters that differ in one attribute only (bound, expr)
    "bounds": dict(pipes=["P1"], badpipes=[],
                   keys={"params_initial": ["q_para_4k", "q_para_exprR",
                                            "q_para_min", "q_para_max"]},
                   raters=[], mutate_pi=True, fit2=True),
    "model": dict(pipes=["P0", "P1"], badpipes=["B1"],
                  keys={"model_key": ["m_para", "m_cone", "m_bad"],
                        "params_initial": ["q_para_a", "q_cone_a"]},
                  raters=["R_none"], fit2=True, fitpre1=True),
    "range": dict(pipes=["P1"], badpipes=[],
                  keys={"range_x": ["r_all", "r_in", "r_in_t", "r_in_near",
                                    "r_nan"],
                        "optimal_fit_edelta": ["e_off", "e_on"],
                        "optimal_fit_num_samples": ["n_8", "n_10"]},
                  raters=[], fit2=True),
    "rate": dict(pipes=["P0", "P1"], badpipes=["B2"],
                 keys={"model_key": ["m_para", "m_cone"],
                       "weight_cp": ["w_def", "w_off"]},
                 raters=["R_none", "R_None", "R_et", "R_rf",
                         "R_et_names", "R_et_lda", "R_svr", "R_et_mem",
                         "R_rf_dir", "R_svr_ldaF", "R_et_ldaF"]),
    # caller-owned training sets edited in place between ratings
    "rate3": dict(pipes=["P1"], badpipes=[],
                  keys={"model_key": ["m_para", "m_cone"]},
                  raters=["R_et_memA", "R_et_memB", "R_et_memC",
                          "R_rf_dirA", "R_rf_dirB", "R_svr_memA"]),
    # fit-based contact-point methods, also with details requested
    "poc": dict(pipes=["P0", "P6", "P7", "P8", "P9"], badpipes=["B3"],
                keys={"model_key": ["m_para"]},
                raters=[], mutate_pl=True, fitpre1=False),
    # a step whose input is another step's output: every pair of pipelines
    # that feed it differently
    "split": dict(pipes=["P0", "P3", "P13", "P14", "P15"], badpipes=[],
                  keys={"model_key": ["m_para"]},
                  raters=[], mutate_pl=False, fitpre1=False),
    "smooth": dict(pipes=["P0", "P5", "P10", "P11", "P12"], badpipes=["B2"],
                   keys={"model_key": ["m_para"]},
                   raters=[], mutate_pl=False, fitpre1=False),
    "rate2": dict(pipes=["P0", "P1"], badpipes=[],
                  keys={"model_key": ["m_para", "m_bad"]},
                  raters=["R_svr", "R_svr_ldaF", "R_svrl", "R_svrl_ldaF",
                          "R_et", "R_et_ldaF", "R_et_lda"]),
}

# keys and the (at most three) values used when slices are generated for
# every PAIR of keys (DESIGN.md 4.4)
PAIR_VALUES = {
    "model_key": ["m_para", "m_pyr", "m_bad"],
    "range_x": ["r_in", "r_in_near2", "r_len3"],
    "range_type": ["t_abs", "t_rel", "t_bad"],
    "segment": ["s_0", "s_app", "s_bad"],
    "weight_cp": ["w_def", "w_near", "w_off"],
    "gcf_k": ["k_half", "k_near", "k_1i"],
    "method": ["me_lsq", "me_nm", "me_bad"],
    "method_kws": ["mk_0", "mk_a"],
    "optimal_fit_edelta": ["e_off", "e_on"],
    "optimal_fit_num_samples": ["n_8", "n_10"],
    "params_initial": ["q_para_a", "q_para_near", "q_pyr_a"],
}


def pair_slices():
    import itertools
    out = {}
    for k1, k2 in itertools.combinations(sorted(PAIR_VALUES), 2):
        out[f"pair_{k1}_{k2}"] = dict(
            pipes=["P0", "P1"], badpipes=["B1"],
            keys={k1: PAIR_VALUES[k1], k2: PAIR_VALUES[k2]},
            raters=[], fit2=True, fitpre1=False)
    return out


def default_id(key):
    want = norm(key, FP_DEFAULT[key])
    for vid, (ctor, _bad) in CATALOG.get(key, {}).items():
        if strict(key, ctor()) == strict(key, FP_DEFAULT[key]):
            return vid
    return None


def build_world(sl):
    """JSON-able world for Curve.tla from a slice definition."""
    keys = sorted(sl["keys"])
    sl = dict(sl)
    if "P0" not in sl["pipes"]:
        sl["pipes"] = ["P0"] + list(sl["pipes"])
    w = {"pipes": list(sl["pipes"]), "badpipes": list(sl["badpipes"]),
         "keys": keys, "vals": {k: list(sl["keys"][k]) for k in keys},
         "raters": list(sl["raters"]),
         "pseudoraters": [r for r in sl["raters"]
                          if str(RATERS[r]["regressor"]).lower() == "none"],
         "short": True, "scannable": True,
         "mutate_pl": bool(sl.get("mutate_pl")),
         "mutate_pi": bool(sl.get("mutate_pi")),
         "fit2": bool(sl.get("fit2")), "fitpre1": bool(sl.get("fitpre1"))}
    ni, si = Interner("n"), Interner("s")
    norm_t, strict_t, bad, default, rxhi = {}, {}, [], {}, {}
    pad = "__pad__"     # keeps every JSON table a non-empty record
    norm_t[pad] = strict_t[pad] = rxhi[pad] = pad
    for k in keys:
        ids = list(sl["keys"][k])
        d = default_id(k)
        if d is not None:
            default[k] = d
            if d not in ids:
                ids.append(d)
        else:
            default[k] = "unset"
        for vid in ids:
            val = value(k, vid)
            norm_t[vid] = ni((k, norm(k, val)))
            strict_t[vid] = si((k, strict(k, val)))
            if is_bad(k, vid):
                bad.append(vid)
            if k == "range_x":
                try:
                    rxhi[vid] = ni(("rxhi", _norm(max(float(val[0]),
                                                      float(val[1])))))
                except (IndexError, TypeError, ValueError):
                    rxhi[vid] = "bad"
    # constants the spec names explicitly
    for k, vid in (("optimal_fit_edelta", "e_on"), ("range_type", "t_abs")):
        if vid not in norm_t:
            val = value(k, vid)
            norm_t[vid] = ni((k, norm(k, val)))
            strict_t[vid] = si((k, strict(k, val)))
    models = [v for v in (sl["keys"].get("model_key") or [])] or []
    if "m_para" not in models:
        models = models + ["m_para"]
    default.setdefault("model_key", "m_para")
    guess, compat = {}, []
    for p in sl["pipes"]:
        guess[p] = {}
        for m in models:
            g = f"g_{p}_{m}"
            guess[p][m] = g
            norm_t[g] = g
            strict_t[g] = g
            for m2 in models:
                if m2 in MODEL_OF and m in MODEL_OF and \
                        PARAM_NAMES.get(MODEL_OF[m]) == \
                        PARAM_NAMES.get(MODEL_OF[m2]) and \
                        MODEL_OF[m] in PARAM_NAMES:
                    compat.append([g, m2])
    for q in sl["keys"].get("params_initial", []):
        for m in models:
            if m in MODEL_OF and PARAM_NAMES.get(MODEL_OF[m]) == \
                    PARAM_NAMES[PARAMS_MODEL[q]]:
                compat.append([q, m])
    compat.append([pad, pad])
    w.update({"norm": norm_t, "strict": strict_t, "bad": bad + [pad],
              "default": default, "rxhi": rxhi,
              "hastip": {p: (TIP in PIPES[p][0]) for p in sl["pipes"]},
              "guess": guess, "compat": compat, "models": models})
    if not w["badpipes"]:
        w["badpipes"] = []
    return w
