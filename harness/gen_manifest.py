"""Regenerate /verif/MANIFEST.json from the table below (kept in one place so
that the manifest is always schema-valid)."""
import json
import pathlib

VERIF = pathlib.Path(__file__).resolve().parents[1]

TB = ("Trusted: TLC 1.8 and the CommunityModules Json/IOUtils readers; the "
      "Python harness (projection of real objects to abstract records); "
      "numpy/scipy/lmfit/scikit-learn/h5py/afmformats as installed. ")

CHECKS = {
    "C14": dict(
        engine="Autosort",
        category="model_checking",
        text=("Exhaustive on both sides: TLC checks a PlusCal transcription "
              "of autosort against the declarative contract for all 1957 "
              "ordered selections of the registered steps (registry exported "
              "from the live code), and the real autosort/check_order/"
              "available/apply are run on the same 1957 selections plus "
              "lists with unknown identifiers; every observation is "
              "validated by TLC against the contract (AutosortTrace). The "
              "input space is finite, so this is a complete decision for "
              "the shipped registry."),
        design_ref="5 (C14), 3.3",
        note=TB + "apply acceptance observed on one synthetic curve.",
        technique="TLA+ contract + PlusCal transcription model-checked by "
                  "TLC; exhaustive trace validation of the real functions",
    ),
}


CURVE_NOTE = TB + ("Fresh-object oracle: the reference for history "
                   "independence is the same library run once on a new "
                   "object with deep-copied arguments (metamorphic; it "
                   "cannot tell whether one fresh fit is numerically right).")
CURVE_TECH = ("TLA+ design spec (Curve.tla) model-checked by TLC with "
              "Assert-ed conformance to the relational contract "
              "(CurveClauses.tla); TLC state-graph walks replayed into the "
              "real object and random driver histories, every recorded step "
              "validated by TLC (CurveTrace.tla)")
CHECKS.update({
    "C03": dict(
        engine="Curve", category="model_checking",
        text=("Curve.tla (one action per public call, caller-owned objects "
              "as state) is model-checked per slice of the settings algebra "
              "(invariants ResultsCurrent, ScanCurrent, NoResultForRefused; "
              "every canonical successor Assert-ed against the C03_* "
              "clauses). Transition tours of the labelled state graphs and "
              "seeded random histories (30 calls, all 15 settings keys, "
              "failing calls, in-place edits) are executed on synthetic and "
              "recorded curves; after every call the real object is "
              "projected (results compared bit-for-bit with a fresh copy, "
              "optimiser invocations counted) and TLC evaluates the clauses "
              "on every recorded step."),
        design_ref="5 (C03), 3.1, 4", note=CURVE_NOTE, technique=CURVE_TECH),
    "C06": dict(
        engine="Curve", category="model_checking",
        text=("ApplyPre/FitPre actions of Curve.tla over valid and "
              "rejectable requests (unknown step first/last, missing "
              "prerequisite, wrong order, invalid option value/name), also "
              "through fit_model and through a caller-owned list/dict edited "
              "in place; design invariants ReportedIsValid and "
              "DataMatchesReport; walks and random histories replayed on "
              "real curves; TLC evaluates the C06_* clauses (bit-identical "
              "columns vs. fresh curve, raw data constant, rejected request "
              "not remembered / rejected again, re-apply changes nothing) "
              "on every recorded step."),
        design_ref="5 (C06), 3.1", note=CURVE_NOTE, technique=CURVE_TECH),
    "C09": dict(
        engine="Curve", category="model_checking",
        text=("Rate action of Curve.tla on every reachable curve state "
              "(fresh, preprocessed only, fitted, edited after fit, failed "
              "requests) x rater catalogue (pseudo 'none', tree and non-tree "
              "regressors, feature subset, LDA, in-memory (X, y), user "
              "directory); TLC evaluates the C09_* clauses: never raises, "
              "-1/0 without a successful current fit, value equals the "
              "standalone rater on a fresh fitted copy bit-for-bit (so a "
              "stale cache hit is a violation), [0,10] for tree regressors, "
              "rating leaves the curve unchanged."),
        design_ref="5 (C09)", note=CURVE_NOTE, technique=CURVE_TECH),
    "C10": dict(
        engine="Curve", category="model_checking",
        text=("Mutate actions of Curve.tla make TLC generate 'pass, edit in "
              "place, pass again' and 'returned object edited' behaviours "
              "for step lists, option dicts and lmfit Parameters; clauses "
              "C10_ArgsUnchanged (every recorded call, deep snapshot "
              "before/after), C10_MutateInvisible (a caller-side edit "
              "changes nothing in the library state), and - through the "
              "C03/C06 clauses evaluated on the same traces - results equal "
              "a fresh equal-valued call. Stateless entry points "
              "(compute_poc x6, model/residual wrappers and model functions "
              "of all registered models, autosort, rater helpers) are "
              "checked for unchanged arguments and same-object-vs-deepcopy "
              "equality."),
        design_ref="5 (C10)", note=CURVE_NOTE, technique=CURVE_TECH),
    "C12": dict(
        engine="Curve", category="model_checking",
        text=("<<effective state, hash>> observations from fresh objects "
              "for every catalogue value of every settings key (one key at "
              "a time; tuple/list, int/float, bool, 'approach'/0 variants; "
              "adversarial neighbours for a concatenating encoder; every "
              "Parameter attribute; pipelines; single-sample and "
              "non-axis data perturbations), from two/three interpreter "
              "processes with different PYTHONHASHSEED and from random "
              "histories. TLC computes the effective tuple (EffTuple: "
              "don't-cares removed in TLA+) and checks equal tuple <=> equal "
              "hash over all pairs."),
        design_ref="5 (C12)", note=CURVE_NOTE,
        technique=("TLA+ EffTuple/HashReport evaluated by TLC over all pairs "
                   "of recorded hash observations")),
})

FIT_NOTE = TB + ("Numeric relations (fit = model(params), residual weights, "
                 "chi-square, k-equivalence) are evaluated by the harness "
                 "with explicit tolerances (1e-9 relative for identities, "
                 "1e-5/1e-4 for optimiser-dependent equalities) and enter "
                 "the TLA+ clauses as flags.")
FIT_TECH = ("TLA+ pass-structure design (FitPasses.tla) model-checked by TLC; "
            "every recorded real fit (per-pass interval ranks, point masks, "
            "unit-frame exponents, write-back) validated by TLC against "
            "FitPassesClauses.tla")
CHECKS.update({
    "C04": dict(
        engine="FitPasses", category="model_checking",
        text=("Configuration lattice (5 models x segment x absolute / "
              "relative-cp / plateau-search ranges incl. exactly v..v+3 "
              "points and empty intervals x weighting x k x fixed/varied/"
              "bounded/expression parameters) realised on synthetic and "
              "recorded curves; TLC evaluates per recorded fit: fit column = "
              "model(reported parameters) on the segment and NaN elsewhere, "
              "residuals = (data - fit) x contact-point weights, chi-square "
              "= sum over the used points, fixed parameters kept, varied "
              "inside bounds, expressions satisfied, and after an "
              "unsuccessful fit NaN columns, success False and NO result "
              "keys of an earlier pass (design invariant "
              "FailureLeavesNothing)."),
        design_ref="5 (C04), 3.2", note=FIT_NOTE, technique=FIT_TECH),
    "C05": dict(
        engine="FitPasses", category="model_checking",
        text=("Rank abstraction: on tiny curves with abscissae on an exact "
              "binary grid EVERY pair of interval-bound ranks (on a sample, "
              "between samples, outside; inverted, one-sided, zero-width, "
              "empty) x both segments x segment layouts is fitted and TLC "
              "computes the expected mask from the ranks (closed interval, "
              "zero width = whole segment). On synthetic/recorded curves "
              "every optimiser pass is recorded: pass structure (1 / 1+3 / "
              "N+1), each anchored interval = requested + contact point of "
              "the previous pass, scan grid length/monotony/ends, plateau "
              "inside the scan, final lower bound = reported optimum, "
              "reported range = last mask = requested range, xmin/xmax = "
              "extreme abscissae in uncorrected units; also after a "
              "preceding fit with a near-by interval on the same object."),
        design_ref="5 (C05), 3.2", note=FIT_NOTE, technique=FIT_TECH),
    "C11": dict(
        engine="FitPasses", category="model_checking",
        text=("Unit-frame exponents recovered exactly from the recorded "
              "optimiser calls (k in {1/2, 1/4}: log_k of contact point "
              "passed / stored is an integer): at EVERY pass of every range "
              "type the guess is multiplied by k exactly once, the abscissa "
              "once, the stored initial parameters stay in measured units; "
              "xmin/xmax in uncorrected units. k-pairs (fit with k vs. k=1 "
              "on fresh equal curves, power-law models, noise-free or noisy "
              "with weighting off): contact point, baseline, fit curve, "
              "mask, xmin/xmax equal and E x k^p equal (p = 3/2, 2)."),
        design_ref="5 (C11), 3.2", note=FIT_NOTE, technique=FIT_TECH),
})

CHECKS["C16"] = dict(
    engine="Container", category="fault_enumeration",
    text=("Container.tla models a save as the sequence of h5py write steps "
          "RECORDED from real saves (41 for a new entry) with a crash "
          "between any two; TLC checks on every reachable state (3 curves of "
          "2 files, 2 fits, 2 users, <= 3 saves) that committed entries stay "
          "loadable, keep fit and members, others are untouched, refused "
          "saves change nothing. Conformance: histories of <= 4 real "
          "save_hdf5 calls with an OSError injected at EVERY write call "
          "position (and all fault-free histories of length <= 3 over new / "
          "same again / other user / different fit / nearly equal fit / "
          "other file) are executed on real .h5 files; after every save the "
          "file is dumped and TLC checks that it equals the state obtained "
          "by applying exactly s micro-steps, that load_hdf5 / RateManager / "
          "hdf5_rated return the design's Load set, that other entries are "
          "byte-identical, and that loaded curves round-trip (columns "
          "bit-identical, settings/parameters equal, user fields, "
          "features)."),
    design_ref="5 (C16), 3.3",
    note=TB + "Failure model: Python-level exception at a write call.",
    technique=("TLA+ crash-point protocol (Container.tla) model-checked by "
               "TLC; fault injection at every recorded write call; file "
               "dumps validated by TLC (ContainerTrace.tla)"))

CHECKS["C18"] = dict(
    engine="Registry", category="model_checking",
    text=("Registry.tla (registry as a key->module relation, sys.path and "
          "the bytecode flag as state; Register / Deregister / LoadFile) is "
          "model-checked over all histories of <= 4 calls for every module "
          "(3 sound, 1 sound-with-warning, 20 single-fault mutants of a "
          "valid module) and file (valid, valid in a directory already on "
          "sys.path, with ancillaries, faulty model, syntax error, import "
          "error, missing, same file name in another directory). The same "
          "alphabet is executed on the REAL registry (all single calls x 4 "
          "initial conditions, all pairs over an interesting subset, "
          "sampled triples/quadruples) with snapshot/restore; TLC validates "
          "every recorded call: faulty => model error and registry "
          "unchanged, sound => registered under its key with default "
          "wrappers / names / units / ancillary keys, deregister removes "
          "exactly that key, unimportable => ModelImportError, file model "
          "behaves like the shipped code, sys.path and the bytecode flag "
          "restored whatever the outcome; plus all 27 ancillary "
          "dictionaries over {absent, NaN, value}^3 for the seeding rule."),
    design_ref="5 (C18), 3.3", note=TB,
    technique=("TLA+ registry design model-checked by TLC; all single-fault "
               "mutants and call histories executed on the real registry "
               "and validated by TLC (RegistryTrace.tla)"))

CHECKS["C19"] = dict(
    engine="Profile", category="model_checking",
    text=("Profile.tla models the store (several Profile objects over one "
          "file, write-through defaults; invariant ReadYourWrites) and the "
          "interactive setup (one step per prompt: skipped / valid answer "
          "stored / invalid answer asked again; invariant "
          "SetupProducesAcceptable, property AnswerStored), model-checked "
          "by TLC. Conformance on the real code: set/get/get_fit_params "
          "histories (every operation through a NEW Profile object; all "
          "single operations and same-key pairs, sampled longer ones) from "
          "an empty, a JSON and a legacy key=value file incl. fit-parameter "
          "lines; the real setup_profile() driven by scripted input() for "
          "every single prompt answer (valid and invalid), the coupled "
          "groups (range type x left x right, model x parameters) and "
          "sampled combinations, each followed by the real batch fit "
          "fit_data on a recorded curve; fit_perform on a folder of 5 "
          "curves for the statistics rows. TLC validates every recorded "
          "event / script / row set (ProfileTrace.tla)."),
    design_ref="5 (C19), 3.3", note=TB,
    technique=("TLA+ store + dialogue design model-checked by TLC; scripted "
               "runs of the real dialogue and store histories validated by "
               "TLC (ProfileTrace.tla)"))

CHECKS["C15"] = dict(
    engine="TrainingSet", category="model_checking",
    text=("TrainingSet.tla writes the loader's cleaning as three operators "
          "over an extended-real alphabet with exact rationals (impute the "
          "mean of the other zero-rated samples; drop rows with NaN together "
          "with their response; replace +-inf by +-2 x largest finite "
          "magnitude) and TLC checks on all 2x2 matrices that the "
          "composition has no NaN/inf left, keeps rows paired with "
          "responses and edits only documented cells. Conformance is "
          "case-exhaustive in the thorough tier: all 373 248 matrices of 3 "
          "rows x 2 features over {1, 2, 5, NaN, +inf, -inf} x responses "
          "{0, 4} (quick: seeded 9 000 + 2 500 with other flag "
          "combinations), plus 1-, 2- and 4-row sets, each written as a "
          "real training-set directory (feature names requested unsorted) "
          "and loaded with the real load_training_set; TLC compares every "
          "output cell, the kept rows and the responses with the spec's "
          "expectation. Sample weights: all 1092 response vectors of length "
          "<= 6 over {0, 3, 10} against the rational Weight operator. Export "
          "round trip on a real rating container, twice with a live "
          "RateManager while the container is re-rated on disk."),
    design_ref="5 (C15), 3.3",
    note=TB + "Real outputs are mapped to rationals with denominator <= 1000.",
    technique=("TLA+ operators over exact rationals evaluated by TLC on "
               "every case of an exhaustively enumerated input space "
               "(TrainingSetTrace.tla)"))

CHECKS["C02"] = dict(
    engine="Formulas", category="model_checking",
    text=("Formulas.tla transcribes the five documented closed forms as "
          "operators over exact rationals on a lattice where they are "
          "rational (R = r^2 u, depth = d^2 u or d u; layer thickness "
          "derived so that xi is a perfect square): E over 4 decades x "
          "Poisson ratio x radius x depth up to R x cone/pyramid angle x "
          "layer ratios = 2280 points. TLC checks the formulas themselves "
          "(zero at contact, increasing with depth, linear in E, series "
          "factor in (0,1]) and EMITS the expected value of every point; the "
          "real model_func and NaniteFitModel.model (both abscissa "
          "orientations, and again after an in-place shift of the same "
          "array) are evaluated at exactly those points x contact point x "
          "baseline and must agree to 1e-12 relative; not in contact the "
          "force must equal the baseline exactly. The documented 1e-4 bound "
          "of the truncated series is compared with the installed exact "
          "Sneddon reference model for depths up to R."),
    design_ref="5 (C02), 3.3",
    note=TB + ("Off-lattice parameter values are covered through the "
               "polynomial-identity argument only."),
    technique=("TLA+ transcription of the documented formulas on an exact "
               "rational lattice; TLC enumerates the lattice and emits one "
               "implementation test per point"))
CHECKS["C13"] = dict(
    engine="ModelContract", category="model_checking",
    text=("ModelContract.tla defines the direction-agnostic wrapper and the "
          "default residuals over integer abscissa sequences with four user "
          "models (point-wise, prefix-sum, index-weighted, running-maximum; "
          "three deliberately order-sensitive); TLC checks on all sequences "
          "of length <= 4 that the user function sees approach order, "
          "outputs are aligned and flips are covariant. The same four models "
          "are registered with the REAL registry and evaluated on every "
          "integer abscissa of length <= 3 (thorough: <= 5) over -2..2 x "
          "contact points incl. outside the data x weighting distance; TLC "
          "compares output order, the abscissa the user function actually "
          "received, and the residuals as exact rationals with the spec. "
          "Every registered model (5 shipped, the exact Sneddon plug-in, the "
          "toys) is checked in both orientations for translation "
          "covariance, baseline additivity, linearity in all moduli, "
          "continuity at contact, monotony with depth, unmodified inputs, "
          "and residual = (data - model) x weights for contact points "
          "inside, just outside and far outside the data."),
    design_ref="5 (C13), 3.3", note=TB,
    technique=("TLA+ wrapper/residual semantics over sequences checked by "
               "TLC; real registered models evaluated on the enumerated "
               "inputs and validated by TLC (ModelContractTrace.tla)"))

CHECKS["C20"] = dict(
    engine="GroupMap", category="model_checking",
    text=("GroupMap.tla: curves on grid pixels with a collapsed Curve.tla "
          "status (none / fit values / failed) and a rating that is "
          "remembered together with the fit state it was computed for; "
          "GetMap(feature) = current value at every curve's pixel, NaN "
          "elsewhere (TLC: MapIsCurrent, RatingShownIsCurrent). Trace "
          "validation in the classic style: synthetic maps (shapes 1x1 .. "
          "3x2, all scan-order permutations for <= 4 curves, serpentine / "
          "column / random and partial maps otherwise) are written with "
          "afmformats' HDF5 exporter, loaded through load_group / QMap, "
          "and driven by random fits, refits with other settings, failing "
          "fits, setting edits, re-preprocessing, ratings and get_qmap "
          "calls; the recorded events drive the spec's state transformers "
          "and every returned grid (Pa, nm, rating; DataMissingWarning) "
          "must equal the spec's grid. Loading records: recorded jpk files, "
          "synthetic files and a nested folder (count, file order, unique "
          "enumerations, progress callbacks monotone in [0,1]); refusal of "
          "curves with neither spring constant nor tip position, also when "
          "they come second in a file or are appended after valid ones."),
    design_ref="5 (C20), 3.3", note=TB,
    technique=("TLA+ map design model-checked by TLC; recorded event traces "
               "of real QMap objects replayed through the spec's state "
               "transformers by TLC (GroupMapTrace.tla)"))

CHECKS["C07"] = dict(
    engine="Preproc", category="model_checking",
    text=("Preproc.tla declares for each of the six steps its footprint "
          "(columns owned / created) and the relations its result owes; "
          "PreprocMC.tla checks the frame condition on pipelines over "
          "column versions. Every step x option value (6 contact-point "
          "methods, 3 regions x 2 strategies) x prefix is applied to "
          "synthetic curves of all models (noise, tilt, drift, lagged "
          "turning point) and to recorded curves; the effect of a step is "
          "the difference between prefix and prefix+step on fresh curves. "
          "TLC checks per application: point count kept, only owned columns "
          "changed/created, nothing lost, and the owed relations: tip = "
          "height + force/k, constant change with zero pre-contact mean / "
          "zero at the contact index, slope correction linear in the chosen "
          "abscissa, vanishing at the region border, data outside the "
          "region bit-identical, baseline trend removed; one segment switch "
          "at the farthest point; strictly monotonic height columns per "
          "segment."),
    design_ref="5 (C07), 3.3",
    note=TB + "Relation flags are computed by the harness with explicit "
              "tolerances.",
    technique=("TLA+ footprint table and frame condition (TLC); recorded "
               "step applications validated by TLC (PreprocTrace.tla)"))
CHECKS["C08"] = dict(
    engine="Poc", category="model_checking",
    text=("Poc.tla transcribes the dispatcher (clip before the first "
          "maximum, fallback to the middle) and, exactly over integer force "
          "arrays with rational arithmetic, deviation_from_baseline and "
          "frechet_direct_path (as sets: exact ties are decided by float "
          "rounding); PocMC.tla checks on all arrays of length <= 7 over "
          "0..2 that results are valid indices inside the approach part and "
          "invariant under 3f+2. The real compute_poc is run on all those "
          "arrays plus thousands of random baseline+ramp integer arrays "
          "(length 10-45) and TLC compares with the transcription; all six "
          "estimators are checked for the envelope (never raises, valid "
          "integer index, same with ret_details) on integer arrays, on "
          "synthetic / recorded curves rounded to a binary grid (so that "
          "power-of-two factors and the tested shifts are exact: estimate "
          "identical; factors 3, 0.3, 1e9 within one sample for the "
          "arithmetic estimators; exact offsets of 2^18 times the range "
          "within one sample for all six) and on degenerate inputs "
          "(constant, decreasing, maximum first, single point, very short, "
          "no baseline). On noise-free model curves the distance to the "
          "true contact is compared with the per-estimator envelope "
          "AccBound of PocTrace.tla (the 'stated fraction')."),
    design_ref="5 (C08), 3.3, II.6", note=TB + "Accuracy is judged only "
    "against the stated envelope on noise-free curves.",
    technique=("TLA+ transcription of two estimators over rationals "
               "model-checked by TLC; real estimators validated case by "
               "case by TLC (PocTrace.tla)"))
CHECKS["C17"] = dict(
    engine="Features", category="model_checking",
    text=("FeaturesClass.tla holds the class table of the 15 features "
          "(binary / fraction / magnitude / signed, fit-dependent or not) "
          "and the order rule; Features.tla checks that features are a "
          "function of approach data (up to a common force factor), fit and "
          "contact point only. compute_features is run on synthetic curves "
          "(5 models, spikes, tilt, 8..900 approach points) and recorded "
          "good and bad curves in the states fresh / preprocessed / fitted "
          "/ failed fit / edited after fit / fixed far-away contact point, "
          "with unsorted name subsets and type filters; TLC checks value "
          "classes, NaN without a successful fit, sorted order (caller "
          "order tolerated only for which_type='all' with explicit names, "
          "as the implementation documents), values belonging to their "
          "names, the curve being unchanged, invariance under factors 2, "
          "1/2, 1e9 on force+fit, independence of the retract segment."),
    design_ref="5 (C17), 3.1", note=TB,
    technique=("TLA+ feature class table evaluated by TLC on recorded "
               "compute_features calls (FeaturesTrace.tla); small design "
               "state machine"))

NOT_APPLICABLE = {
    "C01": ("Recovery of ground-truth parameters to optimiser precision is "
            "numerical convergence of lmfit/MINPACK on real-valued data; it "
            "has no discrete state or case structure a TLA+ specification "
            "could decide (TLC has no real arithmetic). The plumbing C01 "
            "relies on is decided under C04, C05, C11 and C18."),
}

PENDING = "Check not built yet in this revision (see DESIGN.md section 10 build order)."


def main():
    props = [json.loads(line)["id"] for line in
             (VERIF / "properties.jsonl").read_text().splitlines() if line]
    checks = []
    for pid in props:
        if pid not in CHECKS:
            continue
        c = CHECKS[pid]
        checks.append({
            "property_id": pid,
            "quick_cmd": f"bin/check {pid} quick",
            "thorough_cmd": f"bin/check {pid} thorough",
            "evidence_file": f"/verif/evidence/{pid}.json",
            "replay_cmd_template": f"bin/check {pid} --replay {{path}}",
            "engine": c["engine"],
            "level_claimed": {"category": c["category"], "text": c["text"],
                              "design_ref": c["design_ref"]},
            "level_note": c["note"],
            "technique": c["technique"],
        })
    na = []
    for pid in props:
        if pid in CHECKS:
            continue
        na.append({"property_id": pid,
                   "reason": NOT_APPLICABLE.get(pid, PENDING)})
    engines = {}
    for pid, c in CHECKS.items():
        engines.setdefault(c["engine"], []).append(pid)
    man = {
        "version": 1,
        "setup_cmd": "bin/setup",
        "hooks": {
            "guard": "NANITE_VERIF",
            "enable": ("none needed: all observation is done by wrapping "
                       "public functions from the harness process "
                       "(PYTHONPATH=/repo/src:/verif/harness NANITE_VERIF=1 "
                       "is set by bin/check)"),
            "baseline_off_cmd": ("cd /repo && /venv/bin/python -m pytest -ra "
                                 "-q -p no:cacheprovider --timeout=900 "
                                 "--continue-on-collection-errors"),
            "source_commits": [],
            "add_only": True,
        },
        "engines": [{"name": k, "path": f"/verif/spec/{k}.tla",
                     "serves_properties": sorted(v),
                     "kind_free_text": "TLA+ specification checked with TLC, "
                     "bound to the code by replay / trace validation"}
                    for k, v in sorted(engines.items())],
        "checks": checks,
        "not_applicable": na,
        "notes": ("Model-based verification with explicit TLA+ specifications "
                  "(spec/), TLC, and two-way conformance (harness/). See "
                  "DESIGN.md. fix: commits in /repo are listed in "
                  "known_findings.json under 'fixed'."),
    }
    (VERIF / "MANIFEST.json").write_text(json.dumps(man, indent=1) + "\n")


if __name__ == "__main__":
    main()
