"""Regenerate /verif/MANIFEST.json from the table below (kept in one place so
that the manifest is always schema-valid)."""
import json
import pathlib

VERIF = pathlib.Path(__file__).resolve().parents[1]

TB = ("Trusted: TLC 1.8 and the CommunityModules Json/IOUtils readers; the "
      "Python harness (projection of real objects to abstract records); "
      "numpy/scipy/lmfit/scikit-learn/h5py/afmformats as installed. ")

CHECKS = {
    "C14": dict(
        engine="Autosort",
        category="model_checking",
        text=("Exhaustive on both sides: TLC checks a PlusCal transcription "
              "of autosort against the declarative contract for all 1957 "
              "ordered selections of the registered steps (registry exported "
              "from the live code), and the real autosort/check_order/"
              "available/apply are run on the same 1957 selections plus "
              "lists with unknown identifiers; every observation is "
              "validated by TLC against the contract (AutosortTrace). The "
              "input space is finite, so this is a complete decision for "
              "the shipped registry."),
        design_ref="5 (C14), 3.3",
        note=TB + "apply acceptance observed on one synthetic curve.",
        technique="TLA+ contract + PlusCal transcription model-checked by "
                  "TLC; exhaustive trace validation of the real functions",
    ),
}

NOT_APPLICABLE = {
    "C01": ("Recovery of ground-truth parameters to optimiser precision is "
            "numerical convergence of lmfit/MINPACK on real-valued data; it "
            "has no discrete state or case structure a TLA+ specification "
            "could decide (TLC has no real arithmetic). The plumbing C01 "
            "relies on is decided under C04, C05, C11 and C18."),
}

PENDING = "Check not built yet in this revision (see DESIGN.md section 10 build order)."


def main():
    props = [json.loads(line)["id"] for line in
             (VERIF / "properties.jsonl").read_text().splitlines() if line]
    checks = []
    for pid in props:
        if pid not in CHECKS:
            continue
        c = CHECKS[pid]
        checks.append({
            "property_id": pid,
            "quick_cmd": f"bin/check {pid} quick",
            "thorough_cmd": f"bin/check {pid} thorough",
            "evidence_file": f"/verif/evidence/{pid}.json",
            "replay_cmd_template": f"bin/check {pid} --replay {{path}}",
            "engine": c["engine"],
            "level_claimed": {"category": c["category"], "text": c["text"],
                              "design_ref": c["design_ref"]},
            "level_note": c["note"],
            "technique": c["technique"],
        })
    na = []
    for pid in props:
        if pid in CHECKS:
            continue
        na.append({"property_id": pid,
                   "reason": NOT_APPLICABLE.get(pid, PENDING)})
    engines = {}
    for pid, c in CHECKS.items():
        engines.setdefault(c["engine"], []).append(pid)
    man = {
        "version": 1,
        "setup_cmd": "bin/setup",
        "hooks": {
            "guard": "NANITE_VERIF",
            "enable": ("none needed: all observation is done by wrapping "
                       "public functions from the harness process "
                       "(PYTHONPATH=/repo/src:/verif/harness NANITE_VERIF=1 "
                       "is set by bin/check)"),
            "baseline_off_cmd": ("cd /repo && /venv/bin/python -m pytest -ra "
                                 "-q -p no:cacheprovider --timeout=900 "
                                 "--continue-on-collection-errors"),
            "source_commits": [],
            "add_only": True,
        },
        "engines": [{"name": k, "path": f"/verif/spec/{k}.tla",
                     "serves_properties": sorted(v),
                     "kind_free_text": "TLA+ specification checked with TLC, "
                     "bound to the code by replay / trace validation"}
                    for k, v in sorted(engines.items())],
        "checks": checks,
        "not_applicable": na,
        "notes": ("Model-based verification with explicit TLA+ specifications "
                  "(spec/), TLC, and two-way conformance (harness/). See "
                  "DESIGN.md. fix: commits in /repo are listed in "
                  "known_findings.json under 'fixed'."),
    }
    (VERIF / "MANIFEST.json").write_text(json.dumps(man, indent=1) + "\n")


if __name__ == "__main__":
    main()
