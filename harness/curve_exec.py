"""Executor + projection for Curve.tla (DESIGN.md 4.1, 4.2, 4.4).

Executes a history of abstract operations on ONE real nanite.Indentation
object (and the caller-owned objects the history mutates), and after every
operation projects the real object to the abstract state of Curve.tla.  The
result is a trace (list of events) that CurveTrace.tla validates.  The same
executor serves both directions: TLC-generated walks (spec -> code) and
random driver histories (code -> spec).
"""
import copy
import warnings

import numpy as np

import oracle as orc
import world
from vcommon import digest

SCALAR_RESULTS = ["chi_sqr", "hash", "success", "xmin", "xmax",
                  "optimal_fit_delta", "params_fitted"]


# --------------------------------------------------------------------------
# optimiser-invocation counter (wrapped from the harness; no source hook)
# --------------------------------------------------------------------------
def called_from_fitter():
    """is the caller of lmfit.minimize the fitting module of the library
    (and not e.g. a contact-point estimator, which optimises too)?  Decided
    at the library boundary, without naming anything private."""
    import sys
    f = sys._getframe(1)
    while f is not None:
        name = f.f_globals.get("__name__", "")
        if name not in ("curve_exec", "fitpasses"):
            return name == "nanite.fit"
        f = f.f_back
    return False


class OptCounter:
    """counts the optimiser runs that the library's fitting module starts
    (wrapping lmfit.minimize only)"""
    installed = None

    def __init__(self):
        self.n = 0

    @classmethod
    def install(cls):
        if cls.installed is not None:
            return cls.installed
        import lmfit
        self = cls()
        orig_min = lmfit.minimize

        def minimize(*a, **kw):
            if called_from_fitter():
                self.n += 1
            return orig_min(*a, **kw)

        lmfit.minimize = minimize
        cls.installed = self
        return self


# --------------------------------------------------------------------------
# design rule: which pipeline requests must be rejected (C06, C14)
# --------------------------------------------------------------------------
def pipeline_is_bad(steps, opts):
    """Declared from the step registry's requirement/option DECLARATIONS
    (data, not behaviour): unknown step, required step not earlier in the
    list, option name or value outside the declared choices."""
    from nanite import preproc
    decl = {p.identifier: p for p in preproc.PREPROCESSORS}
    seen = []
    for s in steps:
        if s not in decl:
            return True
        for r in (decl[s].steps_required or []):
            if r not in seen:
                return True
        seen.append(s)
        o = (opts or {}).get(s, {})
        declared = {d["name"]: d for d in (decl[s].options or [])}
        for name, val in o.items():
            if name not in declared:
                return True
            ch = declared[name].get("choices")
            if ch is not None and val not in ch:
                return True
    return False


def snapshot_arg(val):
    import lmfit
    if isinstance(val, np.ndarray):
        return ("nd", val.dtype.str, val.shape, val.tobytes())
    if isinstance(val, lmfit.Parameters):
        return world._norm(val)
    if isinstance(val, (list, tuple)):
        return (type(val).__name__,) + tuple(snapshot_arg(v) for v in val)
    if isinstance(val, dict):
        return ("dict",) + tuple((k, snapshot_arg(v))
                                 for k, v in val.items())
    return world._strict(val)


def rx_hi_id(ids, val):
    """id of the UPPER range bound (the documented don't-care of C12 is the
    lower bound: min of the pair)"""
    try:
        if len(val) != 2:
            return "none"
        hi = max(float(val[0]), float(val[1]))
        return ids(("rxhi", world._norm(hi)))
    except (TypeError, IndexError, ValueError):
        return "none"


def observe_state(idnt, raw0):
    """Picklable observation of everything the projection needs (taken
    right after a call; classification against the oracle can happen later,
    in another process)."""
    fp = idnt.fit_properties
    obs = {
        "settings": {k: copy.deepcopy(fp[k]) for k in world.SETTING_KEYS
                     if k in fp},
        "pipe_attr": (copy.deepcopy(list(idnt.preprocessing)),
                      copy.deepcopy(dict(idnt.preprocessing_options))),
        "pipe_fp": None,
        "data": orc.data_digest(idnt),
        "rawok": bool(orc.raw_digest(idnt) == raw0),
        "hash": fp.get("hash"),
        "result": orc.result_snapshot(idnt) if "hash" in fp else None,
        "scalars": [k for k in SCALAR_RESULTS if k in fp],
        "success": bool(fp.get("success", False)),
        "edelta": bool(fp.get("optimal_fit_edelta", False)),
        "scan": {k: digest(np.asarray(fp[k], float))
                 for k in orc.RES_ARRAYS if k in fp},
        "short": bool(int(np.sum(np.asarray(idnt["segment"]) == 0)) < 600),
        "xy": None,
    }
    if "preprocessing" in fp or "preprocessing_options" in fp:
        obs["pipe_fp"] = (copy.deepcopy(list(fp.get("preprocessing", []))),
                          copy.deepcopy(dict(fp.get("preprocessing_options",
                                                    {}))))
    xa = fp.get("x_axis", "tip position")
    ya = fp.get("y_axis", "force")
    if xa in idnt and ya in idnt:
        obs["xy"] = digest(np.asarray(idnt[xa]), np.asarray(idnt[ya]))
    return obs


def classify_state(obs, cid, oracle, ids):
    """observation -> abstract state of CurveClauses.tla (oracle lookups)"""
    def vid(kind, normval):
        return ids((kind, normval))

    def pipe_id(steps, opts):
        return vid("pipe", (world._norm(list(steps)), world._norm(dict(opts))))
    sett = obs["settings"]
    st = {}
    st["sett"] = {k: (vid(k, world.norm(k, sett[k])) if k in sett
                      else "unset") for k in world.SETTING_KEYS}
    st["pipe"] = pipe_id(*obs["pipe_attr"])
    st["pipe_fp"] = pipe_id(*obs["pipe_fp"]) if obs["pipe_fp"] else "unset"
    st["data"] = ids(("data", obs["data"]))
    st["rawok"] = obs["rawok"]
    pipe = obs["pipe_fp"] if obs["pipe_fp"] else obs["pipe_attr"]
    st["hash"] = "none"
    st["why"] = ""
    edelta = obs["edelta"]
    if obs["hash"] is not None:
        st["hash"] = ids(("hash", obs["hash"]))
        mine = dict(obs["result"])
        ref = oracle.fit(cid, pipe, sett)
        if isinstance(ref, tuple):
            st["res"] = "stale"
            st["why"] = f"fresh copy raises {ref[1]}"
        else:
            if not edelta:
                # scan arrays are not fit results unless the plateau search
                # is on; their currency is judged under `scan`
                mine = {k: v for k, v in mine.items()
                        if k not in orc.RES_ARRAYS}
                ref = {k: v for k, v in ref.items()
                       if k not in orc.RES_ARRAYS}
            diff = orc.first_difference(mine, ref)
            if diff is None:
                st["res"] = "cur"
            else:
                st["res"] = "stale"
                st["why"] = f"field {diff} differs from fresh copy"
        st["success"] = obs["success"]
    elif obs["scalars"]:
        st["res"] = "partial"
        st["why"] = "result keys without hash: " + ",".join(obs["scalars"])
        st["success"] = False
    else:
        st["res"] = "none"
        st["success"] = False
    if obs["scan"] and obs["hash"] is not None and edelta:
        st["scan"] = "withfit"
    elif obs["scan"]:
        ref = oracle.scan(cid, pipe, sett)
        st["scan"] = "cur" if obs["scan"] == ref else "stale"
    else:
        st["scan"] = "none"
    rx = sett.get("range_x", None)
    st["rx_hi"] = rx_hi_id(ids, rx) if rx is not None else "unset"
    if st["rx_hi"] == "none":
        st["rx_hi"] = "unset"
    st["xy"] = ids(("xy", obs["xy"])) if obs["xy"] else "none"
    st["edelta"] = edelta
    st["pipe_eff"] = st["pipe_fp"]
    st["short"] = obs["short"]
    return st


# --------------------------------------------------------------------------
class Executor:
    def __init__(self, cid, oracle, interner=None, raters=None,
                 record_passes=False):
        self.cid = cid
        self.oracle = oracle
        self.idnt = oracle.fresh(cid)
        self.raw0 = orc.raw_digest(self.idnt)
        self.ids = interner or world.Interner("v")
        self.counter = OptCounter.install()
        self.raters = raters or {}
        # caller-owned objects
        self.pl_steps, self.pl_opts = [], {}
        self.pi = None
        self.holder = {}             # caller-owned training sets
        self.events = []
        self.hashobs = {}            # distinct (state, hash) observations
        self.short = int(np.sum(self.idnt["segment"] == 0)) < 600
        self.init_state = self.project()

    # ------------------------------------------------------------ values
    def vid(self, kind, normval):
        return self.ids((kind, normval))

    def pipe_id(self, steps, opts):
        return self.vid("pipe", (world._norm(list(steps)),
                                 world._norm(dict(opts))))

    def stored_pipeline(self):
        fp = self.idnt.fit_properties
        if "preprocessing" in fp and "preprocessing_options" in fp:
            return list(fp["preprocessing"]), dict(fp["preprocessing_options"])
        return (list(self.idnt.preprocessing),
                dict(self.idnt.preprocessing_options))

    def stored_settings(self):
        fp = self.idnt.fit_properties
        return {k: fp[k] for k in world.SETTING_KEYS if k in fp}

    # ------------------------------------------------------------ project
    def project(self):
        obs = observe_state(self.idnt, self.raw0)
        return classify_state(obs, self.cid, self.oracle, self.ids)

    def _rxhi(self, val):
        return rx_hi_id(self.ids, val)

    # ------------------------------------------------------------ ops
    def run(self, ops):
        for op in ops:
            self.step(op)
        return self.trace()

    def trace(self):
        return {"cid": self.cid, "init": self.init_state,
                "events": self.events}

    def step(self, op):
        kind = op["op"]
        if kind == "apply" and op.get("via") == "attr" \
                and not op.get("_edited"):
            self.step({"op": "mutate_attr", "pipe": op["pipe"]})
            return self.step(dict(op, _edited=True))
        ev = {"op": kind, "out": "ok", "exc": "", "nopt": 0, "argsame": True,
              "p": "none", "bad": False, "fresh": "none", "key": "none",
              "val": "none", "keys": [], "haspre": False, "ret": "none",
              "expect": "none", "expect2": "none", "retok": True, "rater": "none",
              "streq": False, "badval": False, "via": "fresh",
              "kwvals": {}, "orphan": False, "rxhi": "none",
              "binfail": False, "details": False, "contnan": False, "tree": False, "pseudo": False,
              "retnum": {"m1": False, "zero": False, "inrange": False,
                         "finite": False}}
        pre = self.events[-1]["post"] if self.events else self.init_state
        self.counter.n = 0
        args = []      # (object, snapshot) for args-unchanged
        try:
            with warnings.catch_warnings():
                warnings.simplefilter("ignore")
                getattr(self, "op_" + kind)(op, ev, args, pre)
        except BaseException as exc:
            if isinstance(exc, (KeyboardInterrupt, SystemExit, MemoryError)):
                raise
            ev["out"] = "raise"
            ev["exc"] = type(exc).__name__
        ev["nopt"] = int(self.counter.n)
        ev["argsame"] = all(snapshot_arg(o) == s for o, s in args)
        ev["post"] = self.project()
        ev["src"] = op
        self.events.append(ev)
        post = ev["post"]
        # (whenever a hash is exposed it has to identify the settings that
        # are stored next to it -- also when the results turn out stale)
        if post["hash"] != "none":
            self.hashobs.setdefault(
                (self.eff_tuple(post), post["hash"]),
                dict({k: post[k] for k in ("xy", "pipe_fp", "sett", "rx_hi",
                                           "edelta", "hash")},
                     reprs={k: repr(v)[:200] for k, v in
                            self.idnt.fit_properties.items()
                            if k in world.FP_KEYS or k == "hash"}))
        return ev

    def eff_tuple(self, st):
        """mirror of EffTuple in Curve.tla, only used to deduplicate the
        (effective settings, hash) pairs handed to TLA+; the verdict on the
        pairs is TLA+'s"""
        return tuple([st["xy"], st["pipe_fp"]]
                     + [st["sett"][k] for k in world.SETTING_KEYS]
                     + [st["rx_hi"], st["edelta"]])

    def _watch(self, args, *objs):
        for o in objs:
            args.append((o, snapshot_arg(o)))

    # -- caller-side mutation of objects the library has seen
    def op_mutate_pl(self, op, ev, args, pre):
        steps, opts = world.pipe_value(op["pipe"])
        self.pl_steps[:] = steps
        # edit the options dictionary IN PLACE at every level: inner
        # dictionaries that stay are updated, not replaced
        for k in list(self.pl_opts):
            if k not in opts:
                del self.pl_opts[k]
        for k, v in opts.items():
            if isinstance(v, dict) and isinstance(self.pl_opts.get(k), dict):
                self.pl_opts[k].clear()
                self.pl_opts[k].update(v)
            else:
                self.pl_opts[k] = v
        ev["p"] = self.pipe_id(steps, opts)

    def op_mutate_pi(self, op, ev, args, pre):
        new = world.value("params_initial", op["val"])
        ev["val"] = self.vid("params_initial",
                             world.norm("params_initial", new))
        if self.pi is None or list(self.pi.keys()) != list(new.keys()):
            # not an in-place edit: the caller simply owns a new object
            self.pi = new
            ev["via"] = "fresh"
            return
        for name, p in new.items():
            self.pi[name].set(value=p.value, min=p.min, max=p.max,
                              vary=p.vary)
        ev["via"] = "obj"

    def op_mutate_attr(self, op, ev, args, pre):
        """the caller edits, in place, the objects the curve exposes as
        `preprocessing` / `preprocessing_options`"""
        steps, opts = world.pipe_value(op["pipe"])
        so, oo = self.idnt.preprocessing, self.idnt.preprocessing_options
        ev["p"] = self.pipe_id(steps, opts)
        if not (isinstance(so, list) and isinstance(oo, dict)):
            return
        so[:] = steps
        for k in list(oo):
            if k not in opts:
                del oo[k]
        for k, v in opts.items():
            if isinstance(v, dict) and isinstance(oo.get(k), dict):
                oo[k].clear()
                oo[k].update(v)
            else:
                oo[k] = v

    # -- apply_preprocessing
    def _pipe_args(self, op):
        if op.get("via") == "obj":
            return self.pl_steps, self.pl_opts
        if op.get("via") == "attr":
            # the objects the curve itself exposes (edited in place by the
            # preceding mutate_attr event)
            so, oo = self.idnt.preprocessing, self.idnt.preprocessing_options
            if isinstance(so, list) and isinstance(oo, dict):
                return so, oo
        return world.pipe_value(op["pipe"])

    def _pipe_event(self, ev, steps, opts):
        ev["p"] = self.pipe_id(steps, opts)
        ev["bad"] = bool(pipeline_is_bad(steps, opts))
        fresh = self.oracle.data(self.cid, (copy.deepcopy(list(steps)),
                                            copy.deepcopy(dict(opts))))
        ev["fresh"] = "reject" if isinstance(fresh, tuple) \
            else self.ids(("data", fresh))

    def op_apply(self, op, ev, args, pre):
        # (the stored pipeline BEFORE the caller edits any object)
        cur = copy.deepcopy(self.stored_pipeline())
        steps, opts = self._pipe_args(op)
        ev["via"] = "obj" if op.get("via") in ("obj", "attr") else "fresh"
        self._pipe_event(ev, steps, opts)
        ev["streq"] = bool(
            "preprocessing" in self.idnt.fit_properties
            and world._strict([list(steps), dict(opts)])
            == world._strict([cur[0], cur[1]])
            and type(steps) is type(cur[0]))
        self._watch(args, steps, opts)
        if op.get("via") == "attr" and op.get("noargs") and \
                steps is self.idnt.preprocessing:
            self.idnt.apply_preprocessing()
        elif op.get("via") == "details":
            ev["details"] = True
            self.idnt.apply_preprocessing(steps, opts, ret_details=True)
        else:
            self.idnt.apply_preprocessing(steps, opts)

    # -- fit_properties[k] = v
    def _setting_event(self, ev, key, val, pre):
        nv = self.vid(key, world.norm(key, val))
        ev["key"] = key
        ev["val"] = nv
        if key == "range_x":
            ev["rxhi"] = self._rxhi(val)
        fp = self.idnt.fit_properties
        ev["streq"] = bool(key in fp and
                           world.strict(key, fp[key]) == world.strict(key, val))
        return nv

    def op_set(self, op, ev, args, pre):
        key = op["key"]
        if op.get("via") == "obj" and key == "params_initial" \
                and self.pi is not None:
            val = self.pi
            ev["via"] = "obj"
        else:
            val = world.value(key, op["val"])
        self._setting_event(ev, key, val, pre)
        self._watch(args, val)
        self.idnt.fit_properties[key] = val

    def op_set_unknown(self, op, ev, args, pre):
        ev["key"] = "unknown"
        self.idnt.fit_properties[op.get("key", "no_such_key")] = 1

    # -- fit_model(**kw)
    def op_fit(self, op, ev, args, pre):
        kw = {}
        fp = self.idnt.fit_properties
        streq = True
        for key, vid in sorted(op.get("kw", {}).items()):
            if key == "params_initial" and op.get("via") == "obj" \
                    and self.pi is not None:
                val = self.pi
                ev["via"] = "obj"
            else:
                val = world.value(key, vid)
            kw[key] = val
            if not (key in fp and
                    world.strict(key, fp[key]) == world.strict(key, val)):
                streq = False
        ev["keys"] = sorted(kw.keys())
        ev["kwvals"] = {k: self.vid(k, world.norm(k, v))
                        for k, v in kw.items()}
        if "range_x" in kw:
            ev["rxhi"] = self._rxhi(kw["range_x"])
        if op.get("pipe"):
            if op.get("via_pl") == "obj":
                steps, opts = self.pl_steps, self.pl_opts
            else:
                steps, opts = world.pipe_value(op["pipe"])
            kw["preprocessing"] = steps
            if not op.get("no_opts"):
                kw["preprocessing_options"] = opts
                eff_opts = opts
            else:
                eff_opts = self.idnt.preprocessing_options
            self._pipe_event(ev, steps, eff_opts)
            ev["haspre"] = True
            cur = self.stored_pipeline()
            if world._strict([list(steps), dict(eff_opts)]) != \
                    world._strict([cur[0], cur[1]]):
                streq = False
        elif op.get("opts_only"):
            # orphan options: preprocessing_options without preprocessing
            _steps, opts = world.pipe_value(op["opts_only"])
            kw["preprocessing_options"] = opts
            ev["orphan"] = True
            cur = self.stored_pipeline()
            ev["p"] = self.pipe_id(cur[0], opts)
            if world._strict(dict(opts)) != world._strict(cur[1]):
                streq = False
        ev["streq"] = bool(streq)
        self._watch(args, *kw.values())
        self.idnt.fit_model(**kw)

    def op_fit_unknown(self, op, ev, args, pre):
        ev["key"] = "unknown"
        ev["keys"] = ["zzz_unknown"]
        kw = {k: world.value(k, v) for k, v in op.get("kw", {}).items()}
        ev["kwvals"] = {k: self.vid(k, world.norm(k, v))
                        for k, v in kw.items()}
        self.idnt.fit_model(zzz_unknown=1, **kw)

    # -- compute_emodulus_mindelta
    def op_scan(self, op, ev, args, pre):
        self.idnt.compute_emodulus_mindelta()

    # -- get_initial_fit_parameters
    def op_getinit(self, op, ev, args, pre):
        mk = op.get("model")
        if mk:
            val = world.value("model_key", mk)
            self._setting_event(ev, "model_key", val, pre)
            parms = self.idnt.get_initial_fit_parameters(model_key=val)
        else:
            parms = self.idnt.get_initial_fit_parameters()
        self.pi = parms          # the caller now holds the returned object
        ev["ret"] = self.vid("params_initial",
                             world.norm("params_initial", parms))

    # -- rate_quality
    def op_rate_fault(self, op, ev, args, pre):
        """a rating of this curve is interrupted from outside (fault raised
        where the rater is obtained); the exception itself is not the
        library's doing, what it leaves behind is"""
        from nanite import indent as nindent
        rargs = world.resolve_rater(op["rater"], self.holder)
        ev["rater"] = op["rater"]
        orig = nindent.get_rater
        state = {"n": 0}

        def faulty(*a, **k):
            state["n"] += 1
            raise MemoryError("injected fault while rating")
        nindent.get_rater = faulty
        try:
            self.idnt.rate_quality(regressor=rargs["regressor"],
                                   training_set=rargs["training_set"],
                                   names=rargs["names"], lda=rargs["lda"])
        except MemoryError:
            pass
        finally:
            nindent.get_rater = orig
        ev["val"] = "hit" if state["n"] else "cached"

    def op_get_rater_kw(self, op, ev, args, pre):
        """someone else builds a rater with hyper-parameters of their own"""
        from nanite.rate import rater as nrater
        rargs = world.resolve_rater(op["rater"], None)
        ev["rater"] = op["rater"]
        kw = {"n_estimators": 3, "max_depth": 2} if rargs.get("tree") \
            and "Decision" not in rargs["regressor"] \
            and "Ada" not in rargs["regressor"] else {}
        if "SVR" in rargs["regressor"]:
            kw = {"C": 0.01}
        if rargs["regressor"] == "Decision Tree":
            kw = {"max_depth": 1}
        if rargs["regressor"] == "AdaBoost":
            kw = {"n_estimators": 2}
        if rargs["regressor"] == "Gradient Tree Boosting":
            kw = {"n_estimators": 2}
        nrater.get_rater(regressor=rargs["regressor"],
                         training_set=rargs["training_set"],
                         names=rargs["names"], lda=rargs["lda"], **kw)

    def op_rate(self, op, ev, args, pre):
        rargs = world.resolve_rater(op["rater"], self.holder)
        ev["rater"] = op["rater"]
        if "obj__" in str(world.RATERS[op["rater"]]["training_set"]):
            ev["via"] = "obj"
        ev["tree"] = bool(rargs.get("tree", False))
        ev["pseudo"] = str(rargs["regressor"]).lower() == "none"
        call = dict(regressor=rargs["regressor"],
                    training_set=rargs["training_set"],
                    names=rargs["names"], lda=rargs["lda"])
        if op.get("copyargs") and "obj__" not in str(
                world.RATERS[op["rater"]]["training_set"]):
            call = copy.deepcopy(call)
        self._watch(args, *[v for v in call.values() if v is not None])
        # expected value from the standalone rater on a fresh fitted copy
        if pre["res"] == "cur" and pre["success"] and not ev["pseudo"]:
            exp = self.oracle.rate(self.cid, self.stored_pipeline(),
                                   self.stored_settings(), rargs)
            ev["expect"] = exp if isinstance(exp, str) else "raise"
        elif not ev["pseudo"] and pre["hash"] == "none" \
                and not pre.get("badpipe", False):
            # no fit at all: the value of a fresh curve in the same state
            exp = self.oracle.rate_unfitted(
                self.cid, self.stored_pipeline(), rargs,
                settings=self.stored_settings(),
                applied="preprocessing" in self.idnt.fit_properties)
            ev["expect"] = exp if isinstance(exp, str) else "raise"
            # (the statement allows -1 or 0 without a fit and does not count
            # a changed setting among the things that end a cached rating:
            # the value of the same curve without the stored settings is
            # acceptable, too -- the value of OTHER DATA is not)
            exp2 = self.oracle.rate_unfitted(
                self.cid, self.stored_pipeline(), rargs, settings={},
                applied="preprocessing" in self.idnt.fit_properties)
            ev["expect2"] = exp2 if isinstance(exp2, str) else "raise"
        # what the rating has to be combined from: the binary exclusion
        # criteria and the continuous features of THIS object (public
        # feature API, same feature selection as the rater)
        if not ev["pseudo"]:
            from nanite.rate.rater import IndentationRater
            try:
                bf = IndentationRater.compute_features(
                    self.idnt, which_type="binary", names=rargs["names"])
                cf = IndentationRater.compute_features(
                    self.idnt, which_type="continuous", names=rargs["names"])
                ev["binfail"] = bool(np.sum(np.asarray(bf) == 0))
                ev["contnan"] = bool(np.any(np.isnan(cf)))
            except BaseException as exc:
                if isinstance(exc, (KeyboardInterrupt, SystemExit)):
                    raise
        self.counter.n = 0     # the oracle above may have fitted
        val = self.idnt.rate_quality(**call)
        ev["ret"] = orc.fhex(val)
        fv = float(val)
        ev["retnum"] = {"m1": fv == -1, "zero": fv == 0,
                        "inrange": bool(0 <= fv <= 10),
                        "finite": bool(np.isfinite(fv))}
