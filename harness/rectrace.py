"""Recorded repository-test runs -> traces for CurveTrace.tla."""
import copy
import glob
import os
import pathlib
import pickle
import subprocess
import sys
import warnings

import numpy as np

import curve_exec
import oracle as orc
import vcommon
import world

SHIPPED = {"hertz_para", "hertz_cone", "hertz_pyr3s", "sneddon_spher_approx",
           "power_layer_clifford_2009", "sneddon_spher"}


def run_repo_tests(outdir, timeout=1800):
    """the repository's test-suite under the recorder (outcomes ignored:
    the baseline verdict on the tests comes from the unwrapped run)"""
    env = dict(os.environ, NANITE_VERIF="1",
               NANITE_VERIF_RECORD=str(outdir))
    cmd = [sys.executable, "-m", "pytest", "-q", "-p", "no:cacheprovider",
           "-p", "verif_plugin", "-x", "--timeout=900", "-n", "8",
           "-p", "no:randomly", str(vcommon.REPO / "tests")]
    cmd.remove("-x")
    p = subprocess.run(cmd, cwd=str(vcommon.REPO), env=env,
                       stdout=subprocess.PIPE, stderr=subprocess.STDOUT,
                       text=True, timeout=timeout)
    tail = p.stdout.strip().splitlines()[-1] if p.stdout.strip() else ""
    return tail


def load_records(outdir):
    recs = []
    for f in sorted(glob.glob(str(pathlib.Path(outdir) / "records_*.pkl"))):
        with open(f, "rb") as fh:
            recs += pickle.load(fh)
    return recs


def _base_event():
    return {"op": "none", "out": "ok", "exc": "", "nopt": 0, "argsame": True,
            "p": "none", "bad": False, "fresh": "none", "key": "none",
            "val": "none", "keys": [], "haspre": False, "ret": "none",
            "expect": "none", "expect2": "none", "retok": True, "rater": "none",
            "streq": False, "badval": False, "via": "fresh", "kwvals": {},
            "orphan": False, "rxhi": "none", "binfail": False, "details": False,
            "contnan": False, "tree": False, "pseudo": False,
            "retnum": {"m1": False, "zero": False, "inrange": False,
                       "finite": False}}


def build_traces(recs, ids=None):
    """-> (traces for CurveTrace, statistics)"""
    ids = ids or world.Interner("v")
    factories = {}
    stats = {"instances": len(recs), "validated_instances": 0,
             "events": 0, "skipped_no_file": 0, "cut_foreign": 0,
             "cut_reasons": {}}
    traces = []

    def factory_for(path, enum):
        def make():
            from nanite import IndentationGroup
            return IndentationGroup(path)[enum]
        return make
    oracle = orc.Oracle(factories)

    def vid(kind, normval):
        return ids((kind, normval))

    def pipe_id(steps, opts):
        return vid("pipe", (world._norm(list(steps)), world._norm(dict(opts))))
    for rec in recs:
        if rec is None or not rec.get("events"):
            continue
        path = pathlib.Path(rec["path"])
        if not path.exists() or path.suffix not in (".jpk-force",
                                                    ".jpk-force-map"):
            stats["skipped_no_file"] += 1
            continue
        cid = f"{path}|{rec['enum']}"
        factories[cid] = factory_for(path, rec["enum"])
        try:
            fresh = oracle.fresh(cid)
            if orc.raw_digest(fresh) != rec["raw0"]:
                # loaded with a metadata override etc.: not reproducible
                stats["skipped_no_file"] += 1
                continue
        except BaseException:
            stats["skipped_no_file"] += 1
            continue
        init = curve_exec.classify_state(rec["init"], cid, oracle, ids)
        events = []
        pre = init
        for raw in rec["events"]:
            why = None
            if raw["op"] == "foreign":
                why = raw.get("why", "foreign")
            elif "post" not in raw or "describe_error" in raw:
                why = "unobservable"
            else:
                mk = raw["post"]["settings"].get("model_key")
                if mk is not None and mk not in SHIPPED:
                    why = "model not shipped"
                if raw["op"] == "apply_preprocessing" \
                        and raw.get("ret_details"):
                    why = "ret_details"
            if why:
                stats["cut_foreign"] += 1
                stats["cut_reasons"][why] = \
                    stats["cut_reasons"].get(why, 0) + 1
                break
            ev = _base_event()
            ev.update({"out": raw["out"], "exc": raw["exc"],
                       "nopt": raw.get("nopt", 0),
                       "argsame": bool(raw.get("argsame", True))})
            op = raw["op"]
            if op == "apply_preprocessing":
                ev["op"] = "apply"
                steps, opts = raw["steps"], raw["opts"]
                ev["p"] = pipe_id(steps, opts)
                ev["bad"] = bool(curve_exec.pipeline_is_bad(steps, opts))
                fr = oracle.data(cid, (copy.deepcopy(steps),
                                       copy.deepcopy(opts)))
                ev["fresh"] = "reject" if isinstance(fr, tuple) \
                    else ids(("data", fr))
                cur = raw["cur_pipe"]
                ev["streq"] = bool(
                    raw["had_pre"] and cur[0] is not None
                    and world._strict([list(steps), dict(opts)])
                    == world._strict([list(cur[0]), dict(cur[1] or {})])
                    and type(steps) is type(cur[0]))
            elif op == "fit_model":
                ev["op"] = "fit"
                kw = dict(raw["kw"])
                if any(k not in world.FP_KEYS for k in kw):
                    ev["op"] = "fit_unknown"
                    ev["key"] = "unknown"
                streq = True
                if "preprocessing" in kw:
                    steps = kw.pop("preprocessing")
                    opts = kw.pop("preprocessing_options",
                                  raw["attr_opts"])
                    ev["haspre"] = True
                    ev["p"] = pipe_id(steps, opts)
                    ev["bad"] = bool(curve_exec.pipeline_is_bad(steps, opts))
                    fr = oracle.data(cid, (copy.deepcopy(list(steps)),
                                           copy.deepcopy(dict(opts))))
                    ev["fresh"] = "reject" if isinstance(fr, tuple) \
                        else ids(("data", fr))
                    cur = raw["cur_pipe"]
                    if cur[0] is None or world._strict(
                            [list(steps), dict(opts)]) != world._strict(
                            [list(cur[0]), dict(cur[1] or {})]):
                        streq = False
                elif "preprocessing_options" in kw:
                    opts = kw.pop("preprocessing_options")
                    ev["orphan"] = True
                    ev["p"] = pipe_id(raw["attr_steps"], opts)
                    cur = raw["cur_pipe"]
                    if cur[1] is None or world._strict(dict(opts)) != \
                            world._strict(dict(cur[1])):
                        streq = False
                known = {k: v for k, v in kw.items()
                         if k in world.SETTING_KEYS}
                ev["kwvals"] = {k: vid(k, world.norm(k, v))
                                for k, v in known.items()}
                if "range_x" in known:
                    ev["rxhi"] = curve_exec.rx_hi_id(ids, known["range_x"])
                for k, v in known.items():
                    if not (k in raw["stored"] and world.strict(
                            k, raw["stored"][k]) == world.strict(k, v)):
                        streq = False
                ev["streq"] = bool(streq)
            elif op == "set":
                key = raw["key"]
                if key not in world.SETTING_KEYS:
                    if key in ("preprocessing", "preprocessing_options") \
                            or key in orc.FP_RESULTS:
                        stats["cut_foreign"] += 1
                        stats["cut_reasons"]["direct result/pipeline key"] = \
                            stats["cut_reasons"].get(
                                "direct result/pipeline key", 0) + 1
                        break
                    ev["op"] = "set_unknown"
                    ev["key"] = "unknown"
                else:
                    ev["op"] = "set"
                    ev["key"] = key
                    ev["val"] = vid(key, world.norm(key, raw["val"]))
                    if key == "range_x":
                        ev["rxhi"] = curve_exec.rx_hi_id(ids, raw["val"])
                    ev["streq"] = bool(
                        raw["had"] and world.strict(key, raw["stored"])
                        == world.strict(key, raw["val"]))
            elif op == "rate_quality":
                ev["op"] = "rate"
                r = raw["rater"]
                ev["pseudo"] = str(r["regressor"]).lower() == "none"
                ev["rater"] = repr(sorted((k, repr(v)[:40])
                                          for k, v in r.items()))[:200]
                # expectation and value are not re-derived here (the rating
                # value is not logged by the passive recorder)
                ev["op"] = "rate_passive"
            elif op == "compute_emodulus_mindelta":
                ev["op"] = "scan"
            elif op == "get_initial_fit_parameters":
                ev["op"] = "getinit"
                if raw.get("model_key") is not None:
                    ev["key"] = "model_key"
                    ev["val"] = vid("model_key",
                                    world.norm("model_key",
                                               raw["model_key"]))
            ev["post"] = curve_exec.classify_state(raw["post"], cid, oracle,
                                                   ids)
            ev["src"] = {"op": ev["op"], "test": raw.get("test", ""),
                         "desc": describe_raw(raw)}
            events.append(ev)
            pre = ev["post"]
        if events:
            traces.append({"cid": cid, "init": init, "events": events,
                           "tag": "repo-test:" + rec.get("test", "")[:80]})
            stats["validated_instances"] += 1
            stats["events"] += len(events)
    stats["oracle_terms"] = oracle.terms
    return traces, stats


def describe_raw(raw):
    op = raw["op"]
    if op == "apply_preprocessing":
        return f"apply_preprocessing({raw['steps']}, {raw['opts']})"
    if op == "fit_model":
        return "fit_model(" + ", ".join(
            f"{k}={repr(v)[:60]}" for k, v in raw["kw"].items()) + ")"
    if op == "set":
        return f"fit_properties[{raw['key']!r}] = {repr(raw['val'])[:60]}"
    return op
