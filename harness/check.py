"""check.py <ID> [quick|thorough] [--replay PATH]  -- see bin/check"""
import importlib
import os
import signal
import sys
import threading
import traceback

import vcommon


def main(argv):
    if not argv:
        print(__doc__)
        return 2
    pid = argv[0].upper()
    tier = os.environ.get("VERIF_TIER", "quick")
    replay = None
    rest = argv[1:]
    while rest:
        a = rest.pop(0)
        if a in ("quick", "thorough"):
            tier = a
        elif a == "--replay":
            replay = rest.pop(0)
        else:
            print(f"unknown argument {a!r}")
            return 2
    if tier not in ("quick", "thorough"):
        tier = "quick"
    seed = int(os.environ.get("VERIF_SEED", "0") or 0)
    try:
        mod = importlib.import_module(f"checks.{pid.lower()}")
    except ModuleNotFoundError as exc:
        print(f"MACHINERY-ERROR no check module for {pid}: {exc}")
        return 2
    ctx = vcommon.Ctx(pid, tier, seed)
    try:
        import nanite
        want = str(vcommon.REPO / "src")
        if not nanite.__file__.startswith(want):
            raise vcommon.MachineryError(
                f"nanite imported from {nanite.__file__}, expected {want}")
        if replay:
            import json
            obj = json.loads(open(replay).read())
            ok = mod.replay(ctx, obj.get("replay", obj))
            import shutil
            shutil.rmtree(ctx.scratch, ignore_errors=True)
            if ok:
                print(f"replay {replay}: property holds on this case")
                return 0
            print(f"VIOLATION property={pid} replay={replay}")
            return 1
        mod.run(ctx)
        return ctx.finish()
    except vcommon.MachineryError as exc:
        print(f"MACHINERY-ERROR {pid}: {exc}")
        import shutil
        shutil.rmtree(ctx.scratch, ignore_errors=True)
        return 2
    except BaseException:
        print(f"MACHINERY-ERROR {pid}: unexpected exception in harness")
        traceback.print_exc()
        import shutil
        shutil.rmtree(ctx.scratch, ignore_errors=True)
        return 2


def _cleanup_group():
    """no worker process or TLC instance may outlive the check"""
    try:
        signal.signal(signal.SIGTERM, signal.SIG_IGN)
        os.killpg(os.getpgrp(), signal.SIGTERM)
    except Exception:
        pass


def _watchdog(seconds):
    def fire():
        print(f"MACHINERY-ERROR check exceeded its time limit of "
              f"{seconds} s", flush=True)
        _cleanup_group()
        os._exit(2)
    t = threading.Timer(seconds, fire)
    t.daemon = True
    t.start()


if __name__ == "__main__":
    try:
        os.setpgrp()
    except Exception:
        pass
    _watchdog(int(os.environ.get("VERIF_TIMEOUT", "5400")))
    rc = 2
    try:
        rc = main(sys.argv[1:])
    finally:
        sys.stdout.flush()
        _cleanup_group()
    os._exit(rc)
