"""check.py <ID> [quick|thorough] [--replay PATH]  -- see bin/check"""
import importlib
import os
import signal
import sys
import threading
import traceback

import vcommon


def main(argv):
    if not argv:
        print(__doc__)
        return 2
    pid = argv[0].upper()
    tier = os.environ.get("VERIF_TIER", "quick")
    replay = None
    rest = argv[1:]
    while rest:
        a = rest.pop(0)
        if a in ("quick", "thorough"):
            tier = a
        elif a == "--replay":
            replay = rest.pop(0)
        else:
            print(f"unknown argument {a!r}")
            return 2
    if tier not in ("quick", "thorough"):
        tier = "quick"
    seed = int(os.environ.get("VERIF_SEED", "0") or 0)
    try:
        mod = importlib.import_module(f"checks.{pid.lower()}")
    except ModuleNotFoundError as exc:
        print(f"MACHINERY-ERROR no check module for {pid}: {exc}")
        return 2
    ctx = vcommon.Ctx(pid, tier, seed)
    try:
        import nanite
        want = str(vcommon.REPO / "src")
        if not nanite.__file__.startswith(want):
            raise vcommon.MachineryError(
                f"nanite imported from {nanite.__file__}, expected {want}")
        if replay:
            import json
            obj = json.loads(open(replay).read())
            ok = mod.replay(ctx, obj.get("replay", obj))
            import shutil
            shutil.rmtree(ctx.scratch, ignore_errors=True)
            if ok:
                print(f"replay {replay}: property holds on this case")
                return 0
            print(f"VIOLATION property={pid} replay={replay}")
            return 1
        mod.run(ctx)
        return ctx.finish()
    except vcommon.MachineryError as exc:
        print(f"MACHINERY-ERROR {pid}: {exc}")
        return _after_failure(ctx, replay)
    except BaseException:
        print(f"MACHINERY-ERROR {pid}: unexpected exception in harness")
        traceback.print_exc()
        return _after_failure(ctx, replay)


def _after_failure(ctx, replay):
    """a machinery failure AFTER violations were established must not hide
    them: they are reported (exit 1); otherwise exit 2"""
    import shutil
    if not replay and ctx.candidates:
        try:
            rc = ctx.finish()
            if rc == 1:
                return 1
        except BaseException:
            traceback.print_exc()
    shutil.rmtree(ctx.scratch, ignore_errors=True)
    return 2


def _descendants(root):
    kids = {}
    for d in os.listdir("/proc"):
        if not d.isdigit():
            continue
        try:
            with open(f"/proc/{d}/stat") as fh:
                st = fh.read()
            ppid = int(st[st.rindex(")") + 2:].split()[1])
        except (OSError, ValueError, IndexError):
            continue
        kids.setdefault(ppid, []).append(int(d))
    out, todo = [], [root]
    while todo:
        for c in kids.get(todo.pop(), []):
            out.append(c)
            todo.append(c)
    return out


def _cleanup_group():
    """no worker process or TLC instance may outlive the check (only the
    check's own descendants are touched: the caller's pipeline is not)"""
    for sig in (signal.SIGTERM, signal.SIGKILL):
        for pid in _descendants(os.getpid()):
            try:
                os.kill(pid, sig)
            except OSError:
                pass
        if sig == signal.SIGTERM:
            import time
            time.sleep(.2)


def _watchdog(seconds):
    def fire():
        print(f"MACHINERY-ERROR check exceeded its time limit of "
              f"{seconds} s", flush=True)
        _cleanup_group()
        os._exit(2)
    t = threading.Timer(seconds, fire)
    t.daemon = True
    t.start()


if __name__ == "__main__":
    _watchdog(int(os.environ.get("VERIF_TIMEOUT", "5400")))
    rc = 2
    try:
        rc = main(sys.argv[1:])
    finally:
        sys.stdout.flush()
        _cleanup_group()
    os._exit(rc)
