"""Harness for Profile.tla (C19): the profile store on real files, the
interactive setup driven by scripted answers, the batch fit."""
import builtins
import functools
import itertools
import json
import math
import pathlib
import random
import shutil
import sys
import tempfile
import warnings

import numpy as np

import vcommon
import world
from vcommon import MachineryError

# ---------------------------------------------------------------- values
# key -> {value id: python value}; ids are what TLA+ sees
STORE_VALUES = {
    "model_key": {"mk_para": "hertz_para", "mk_cone": "hertz_cone"},
    "preprocessing": {"pp_a": ["compute_tip_position", "correct_tip_offset"],
                      "pp_b": ["compute_tip_position"]},
    "preprocessing_options": {
        "po_a": {"correct_tip_offset": {"method": "fit_constant_line"}},
        "po_b": {}},
    "range_type": {"rt_abs": "absolute", "rt_rel": "relative cp"},
    "range_x": {"rx_a": [-2e-6, 1e-6], "rx_b": [0.0, 0.0]},
    "segment": {"sg_0": 0, "sg_1": 1},
    "weight_cp": {"wc_a": 2.5e-7, "wc_b": 0},
    "rating regressor": {"rr_a": "Random Forest", "rr_b": "Extra Trees"},
    # (a path with a character that means "comment" in other formats)
    "rating training set": {"ts_0": "/data/ts_sample#2/user", "ts_a": "zef18",
                            "ts_b": "/some/path"},
    "fit param E value": {"fe_a": 50.0, "fe_b": 1234.5},
    "fit param E vary": {"fv_a": False, "fv_b": True},
    "fit param R value": {"fr_a": 16e-6, "fr_b": 5e-6},
    # zero is a legal value of Poisson's ratio and differs from the
    # default 0.5
    "fit param nu value": {"fn_a": 0.0, "fn_b": 0.25},
    # entries left by another model whose parameter names extend "E"/"nu"
    "fit param E_S value": {"fes_a": 777.0, "fes_b": 4321.0},
    "fit param nu_S value": {"fns_a": 0.125, "fns_b": 0.375},
}
# keys a version-1.7.8 key=value profile can hold
LEGACY_KEYS = ["model_key", "preprocessing", "range_type", "range_x",
               "segment", "weight_cp", "rating regressor",
               "rating training set", "fit param E value",
               "fit param E vary", "fit param R value"]


def legacy_text(m):
    lines = []
    for k, v in sorted(m.items()):
        if isinstance(v, list):
            v = ",".join(str(x) for x in v)
        elif k == "segment":
            v = {0: "approach", 1: "retract"}.get(v, v)
        lines.append(f"{k} = {v}")
    return "\n".join(lines) + "\n"


class Values:
    """value <-> id; unknown values get content ids"""

    def __init__(self):
        self.ids = {}
        for k, d in STORE_VALUES.items():
            for vid, v in d.items():
                self.ids[(k, json.dumps(v, sort_keys=True))] = vid

    def __call__(self, key, val):
        try:
            j = json.dumps(val, sort_keys=True)
        except TypeError:
            j = repr(val)
        if (key, j) not in self.ids:
            import hashlib
            self.ids[(key, j)] = "x" + hashlib.sha1(
                (key + j).encode()).hexdigest()[:10]
        return self.ids[(key, j)]


def defaults(vals):
    from nanite.cli import profile
    d = {}
    for k in STORE_VALUES:
        d[k] = vals(k, profile.DEFAULTS[k]) if k in profile.DEFAULTS \
            else "none"
    return d


# ---------------------------------------------------------------- store
def store_histories(tier, rng):
    keys = list(STORE_VALUES)
    ops = []
    for k in keys:
        for vid in STORE_VALUES[k]:
            ops.append(("set", k, vid))
        ops.append(("get", k))
    hists = []
    for init in ("empty", "json", "legacy"):
        for a in ops:
            hists.append({"init": init, "ops": [a]})
        for a in ops:
            for b in ops:
                if a[1] == b[1] or rng.random() < (.05 if tier == "quick"
                                                   else .5):
                    hists.append({"init": init, "ops": [a, b]})
    for init in ("empty", "json", "legacy"):
        for k in ("range_x", "weight_cp", "preprocessing"):
            v = sorted(STORE_VALUES[k])[0]
            hists.append({"init": init, "ops": [("set", k, v),
                                                ("setbad", k),
                                                ("get", k), ("get", "segment")]})
    n = 300 if tier == "quick" else 5000
    for _ in range(n):
        hists.append({"init": rng.choice(["empty", "json", "legacy"]),
                      "ops": [rng.choice(ops)
                              for _ in range(rng.choice([3, 4]))]})
    # two LIVE Profile objects on the same file, used alternately
    for init in ("empty", "json", "legacy"):
        for k in keys:
            v1, v2 = sorted(STORE_VALUES[k])[:2]
            for other in (k, rng.choice(keys)):
                hists.append({"init": init, "live": True, "ops": [
                    ("set", k, v1, "o2"), ("get", other, "o1"),
                    ("get", k, "o2"), ("get", k, "new")]})
                hists.append({"init": init, "live": True, "ops": [
                    ("set", k, v1, "o1"), ("set", k, v2, "o2"),
                    ("set", other, sorted(STORE_VALUES[other])[0], "o1"),
                    ("get", k, "new")]})
    for _ in range(n // 2):
        hists.append({"init": rng.choice(["empty", "json", "legacy"]),
                      "live": True,
                      "ops": [rng.choice(ops) + (rng.choice(["o1", "o2",
                                                             "new"]),)
                              for _ in range(rng.choice([3, 4, 5]))]})
    # fit parameters: defaults overridden by exactly the stored entries
    for init in ("empty", "json", "legacy"):
        for combo in itertools.product([None, "fe_a", "fe_b"],
                                       [None, "fv_a", "fv_b"],
                                       [None, "fr_a"],
                                       [None, "fn_a", "fn_b"],
                                       [None, "fes_a"],
                                       [None, "fns_a"],
                                       [None, "mk_para", "mk_cone"]):
            o = []
            for k, vid in zip(["fit param E value", "fit param E vary",
                               "fit param R value", "fit param nu value",
                               "fit param E_S value",
                               "fit param nu_S value",
                               "model_key"], combo):
                if vid:
                    o.append(("set", k, vid))
            o.append(("fitparams",))
            # (reading the parameters does not change what is stored)
            if combo[3]:
                o.append(("get", "fit param nu value"))
            if combo[0]:
                o.append(("get", "fit param E value"))
            hists.append({"init": init, "ops": o})
    return hists


def run_store(job):
    hists, tmp = job
    from nanite.cli import profile
    from nanite import model
    vals = Values()
    out = []
    tmpd = pathlib.Path(tempfile.mkdtemp(prefix="c19s_", dir=tmp))
    init_map = {k: STORE_VALUES[k][sorted(STORE_VALUES[k])[0]]
                for k in LEGACY_KEYS}
    for n, h in enumerate(hists):
        path = tmpd / f"p{n}.cfg"
        if h["init"] == "json":
            path.write_text(json.dumps(init_map, indent=2, sort_keys=True))
        elif h["init"] == "legacy":
            path.write_text(legacy_text(init_map))
        else:
            path.write_text("")

        def snapshot():
            try:
                text = path.read_text()
                m = json.loads(text) if text.strip().startswith("{") \
                    else None
            except Exception:
                m = None
            st = {k: "absent" for k in STORE_VALUES}
            if m is not None:
                for k in STORE_VALUES:
                    if k in m:
                        st[k] = vals(k, m[k])
            return st
        tr = {"form": h["init"], "events": [], "hist": h,
              "initmap": {k: (vals(k, init_map[k]) if k in init_map
                              and h["init"] != "empty" else "absent")
                          for k in STORE_VALUES}}
        live = {}
        if h.get("live"):
            with warnings.catch_warnings():
                warnings.simplefilter("ignore")
                live = {"o1": profile.Profile(path=path),
                        "o2": profile.Profile(path=path)}
        for op in h["ops"]:
            who = "new"
            if op and op[-1] in ("o1", "o2", "new"):
                who = op[-1]
                op = op[:-1]
            ev = {"op": op[0], "key": op[1] if len(op) > 1 else "none",
                  "val": op[2] if len(op) > 2 else "none", "out": "ok",
                  "ret": "none", "exc": "", "fp_ok": True}
            try:
                with warnings.catch_warnings():
                    warnings.simplefilter("ignore")
                    # a NEW object, or one of two long-lived ones
                    pf = live[who] if who in live \
                        else profile.Profile(path=path)
                    if op[0] == "setbad":
                        # a value that cannot be stored: refused, and the
                        # refusal leaves the file as it was
                        try:
                            pf[op[1]] = np.array([1.5, 2.5])
                            ev["out"] = "ok"
                        except (TypeError, ValueError):
                            ev["out"] = "refused"
                    elif op[0] == "set":
                        pf[op[1]] = STORE_VALUES[op[1]][op[2]]
                    elif op[0] == "get":
                        if op[1] in profile.DEFAULTS:
                            ev["ret"] = vals(op[1], pf[op[1]])
                        else:
                            got = pf.load().get(op[1])
                            ev["ret"] = "absent" if got is None \
                                else vals(op[1], got)
                    else:
                        stored = profile.Profile(path=path).load()
                        params = pf.get_fit_params()
                        want = model.get_init_parms(stored["model_key"])
                        for p in want:
                            vk, fk = f"fit param {p} value", \
                                f"fit param {p} vary"
                            if vk in stored:
                                want[p].value = stored[vk]
                            if fk in stored:
                                want[p].vary = stored[fk]
                        ev["fp_ok"] = (
                            list(params.keys()) == list(want.keys()) and all(
                                params[p].value == want[p].value
                                and params[p].vary == want[p].vary
                                and params[p].min == want[p].min
                                and params[p].max == want[p].max
                                for p in want))
            except BaseException as exc:
                if isinstance(exc, (KeyboardInterrupt, SystemExit)):
                    raise
                ev["out"] = "raise"
                ev["exc"] = type(exc).__name__ + ": " + str(exc)[:60]
            ev["post"] = snapshot()
            tr["events"].append(ev)
        out.append(tr)
    shutil.rmtree(tmpd, ignore_errors=True)
    return out


# ---------------------------------------------------------------- dialogue
class ScriptedInput:
    """answers prompts from a script; the prompt is identified by its own
    text and by the last section header the dialogue printed"""
    HEADERS = [("Define preprocessing", "preproc"),
               ("Select model number", "model"),
               ("Set fit parameters", "params"),
               ("Select range type", "rtype"),
               ("Select fitting interval", "interval"),
               ("Suppress residuals", "weight"),
               ("Select training set", "ts"),
               ("Select rating regressor", "reg")]

    def __init__(self, script, out):
        self.script = {k: list(v) for k, v in script.items()}
        self.transcript = []
        self.out = out

    def section(self):
        text = self.out.getvalue()
        best, pos = "unknown", -1
        for head, name in self.HEADERS:
            i = text.rfind(head)
            if i > pos:
                best, pos = name, i
        return best

    def classify(self, prompt):
        p = prompt.strip()
        if p.startswith("- initial value for"):
            return "value:" + p.split()[4]
        if prompt.startswith("  vary"):
            return "vary:" + p.split()[1]
        if p.startswith("left [µm]"):
            return "left"
        if p.startswith("right [µm]"):
            return "right"
        sec = self.section()
        return sec if sec in ("preproc", "model", "rtype", "weight", "ts",
                              "reg") else "unknown:" + sec

    def __call__(self, prompt=""):
        kind = self.classify(prompt)
        queue = self.script.get(kind, [])
        ans = queue.pop(0) if queue else ""
        self.transcript.append([kind, ans])
        if len(self.transcript) > 80:
            raise RuntimeError("dialogue does not terminate")
        return ans


PREPROC_ANSWERS = {        # answer text -> (valid for the batch fit?)
    "1,2,4": True,         # tip position, force offset, tip offset
    "1,4": True,
    "1,4,3": True,         # + slope correction (needs tip offset first)
    "4": False,            # tip offset without tip position
    "1,3,4": False,        # slope correction before tip offset
}


def expected_value(kind, ans, ctxd):
    """meaning of an accepted answer (the value that must be stored)"""
    from nanite import preproc, model
    from nanite import rate
    if kind == "preproc":
        steps = [pp.identifier for pp in preproc.PREPROCESSORS]
        return [steps[int(i) - 1] for i in ans.split(",")]
    if kind == "model":
        return sorted(model.models_available.keys())[int(ans) - 1]
    if kind.startswith("value:"):
        return float(ans)
    if kind.startswith("vary:"):
        return ans.strip().lower() == "true"
    if kind == "rtype":
        return ans
    if kind in ("weight", "left", "right"):
        return float(ans) * 1e-6
    if kind == "ts":
        return ans
    if kind == "reg":
        return rate.reg_names[int(ans) - 1]
    raise KeyError(kind)


def answer_valid(kind, ans):
    """design rule: is this answer acceptable (else it must be asked again
    and not stored)"""
    if kind == "preproc":
        return PREPROC_ANSWERS.get(ans, False)
    if kind.startswith("vary:"):
        return ans.strip().lower() in ("true", "false")
    if kind == "rtype":
        return ans in ("absolute", "relative cp")
    if kind == "ts":
        return ans == "zef18"
    return True


def dialogue_scripts(tier, rng):
    base = {}
    scripts = [dict(base)]
    single = {
        "preproc": list(PREPROC_ANSWERS),
        "model": ["1", "2", "3"],
        "value:E": ["2500", "1e4"], "vary:E": ["true", "false", "maybe"],
        "value:contact_point": ["1e-7"], "vary:contact_point": ["false"],
        "value:baseline": ["0.5e-9"], "vary:R": ["true"],
        "rtype": ["absolute", "relative cp", "relative", "nonsense",
                  "Relative CP", "absolute ", " relative cp"],
        "left": ["-2", "0.5"], "right": ["1.5", "0"],
        "weight": ["0.25", "0"],
        "ts": ["zef18", "no_such_set"],
        "reg": ["1", "5"],
    }
    for kind, answers in single.items():
        for a in answers:
            s = {kind: [a]}
            if not answer_valid(kind, a):
                # an invalid answer is asked again: then give a valid one
                valid = [x for x in answers if answer_valid(kind, x)]
                s[kind] = [a, valid[0] if valid else ""]
            scripts.append(s)
    # coupled groups
    for rt in ("absolute", "relative cp", ""):
        for left in ("-2", ""):
            for right in ("1.5", ""):
                scripts.append({"rtype": [rt] if rt else [],
                                "left": [left] if left else [],
                                "right": [right] if right else []})
    for m in ("1", "2", "3", "6"):
        for e in ("2500", ""):
            scripts.append({"model": [m], "value:E": [e] if e else [],
                            "vary:E": ["false"],
                            "preproc": ["1,2,4"]})
    n = 60 if tier == "quick" else 1500
    kinds = list(single)
    for _ in range(n):
        s = {}
        for k in rng.sample(kinds, rng.choice([2, 3, 4, 6])):
            a = rng.choice(single[k])
            s[k] = [a]
            if not answer_valid(k, a):
                valid = [x for x in single[k] if answer_valid(k, x)]
                s[k] = [a, rng.choice(valid) if valid else ""]
        scripts.append(s)
    return scripts


PROMPT_KEY = {"preproc": "preprocessing", "model": "model_key",
              "rtype": "range_type", "left": "range_x", "right": "range_x",
              "weight": "weight_cp", "ts": "rating training set",
              "reg": "rating regressor"}


def run_dialogues(job):
    scripts, tmp = job
    from nanite.cli import profile as prof
    from nanite.cli import rating as crating
    import nanite
    out = []
    tmpd = pathlib.Path(tempfile.mkdtemp(prefix="c19d_", dir=tmp))
    curve = vcommon.REPO / "tests" / "data" / \
        "fmt-jpk-fd_spot3-0192.jpk-force"
    for n, script in enumerate(scripts):
        path = tmpd / f"d{n}.cfg"
        import io
        outbuf = io.StringIO()
        si = ScriptedInput(script, outbuf)
        rec = {"script": script, "raised": "", "answers": [],
               "fit_ok": True, "fit_exc": "", "stats_ok": True}
        orig_profile, orig_input, orig_argv = prof.Profile, builtins.input, \
            sys.argv
        real = prof.Profile

        class PProfile(real):
            def __init__(self, path=path, create=True):
                real.__init__(self, path=path, create=create)
        try:
            prof.Profile = PProfile
            builtins.input = si
            sys.argv = ["nanite-setup-profile"]
            import contextlib
            with contextlib.redirect_stdout(outbuf), \
                    warnings.catch_warnings():
                warnings.simplefilter("ignore")
                prof.setup_profile()
        except BaseException as exc:
            if isinstance(exc, (KeyboardInterrupt, SystemExit)):
                raise
            rec["raised"] = type(exc).__name__ + ": " + str(exc)[:80]
        finally:
            prof.Profile, builtins.input, sys.argv = \
                orig_profile, orig_input, orig_argv
        rec["transcript"] = si.transcript
        try:
            stored = json.loads(path.read_text())
        except Exception:
            stored = {}
        # per prompt: the LAST answer given decides
        last = {}
        for kind, ans in si.transcript:
            if ans != "":
                last.setdefault(kind, []).append(ans)
        for kind, answers in last.items():
            final = answers[-1]
            valid = answer_valid(kind, final)
            item = {"prompt": kind, "answer": final, "valid": bool(valid),
                    "stored_ok": True, "reasked_ok": True,
                    "n_given": len(answers)}
            # an invalid answer must have been asked again
            for a in answers[:-1]:
                if answer_valid(kind, a):
                    item["reasked_ok"] = False     # a valid answer re-asked
            if valid and not rec["raised"]:
                try:
                    want = expected_value(kind, final, None)
                    if kind.startswith("value:"):
                        got = stored.get(f"fit param {kind[6:]} value")
                        ok = got == want
                    elif kind.startswith("vary:"):
                        got = stored.get(f"fit param {kind[5:]} vary")
                        ok = got == want
                    elif kind in ("left", "right"):
                        got = stored.get("range_x", [None, None])[
                            0 if kind == "left" else 1]
                        want = float(final) * 1e-6
                        ok = got is not None and \
                            math.isclose(got, want, rel_tol=1e-12,
                                         abs_tol=1e-30)
                    elif kind == "weight":
                        got = stored.get("weight_cp")
                        ok = got is not None and \
                            math.isclose(got, want, rel_tol=1e-12,
                                         abs_tol=1e-30)
                    else:
                        got = stored.get(PROMPT_KEY[kind])
                        ok = got == want
                    item["stored_ok"] = bool(ok)
                except Exception:
                    item["stored_ok"] = False
            if not valid and not rec["raised"]:
                # must not have been stored
                try:
                    want = expected_value(kind, final, None)
                    key = PROMPT_KEY.get(kind)
                    if key and key != "range_x" and stored.get(key) == want:
                        item["stored_ok"] = False
                except Exception:
                    pass
            rec["answers"].append(item)
        # every profile the setup can produce is accepted by the batch fit
        if not rec["raised"]:
            try:
                crating.fit_data.cache_clear()
                with warnings.catch_warnings():
                    warnings.simplefilter("ignore")
                    idnt = crating.fit_data(curve, profile_path=path)
                rec["fit_ok"] = "success" in idnt.fit_properties
            except BaseException as exc:
                if isinstance(exc, (KeyboardInterrupt, SystemExit)):
                    raise
                rec["fit_ok"] = False
                rec["fit_exc"] = type(exc).__name__ + ": " + str(exc)[:80]
        rec["all_valid_or_reasked"] = True
        out.append(rec)
    shutil.rmtree(tmpd, ignore_errors=True)
    return out


# ---------------------------------------------------------------- batch
def run_batch(tmp):
    """fit_perform on a folder: one statistics row per curve"""
    from nanite.cli import profile as prof
    from nanite.cli import rating as crating
    import nanite
    tmpd = pathlib.Path(tempfile.mkdtemp(prefix="c19b_", dir=tmp))
    data = tmpd / "data"
    data.mkdir()
    files = ["fmt-jpk-fd_spot3-0192.jpk-force",
             "fmt-jpk-fd_map2x2_extracted.jpk-force-map"]
    for f in files:
        shutil.copy2(vcommon.REPO / "tests" / "data" / f, data / f)
    # (five curves in all: a run fits them all before the next one starts)
    # a second folder with a sub-folder that links to one of its files (a
    # "selection"); it is fitted once, after the rounds
    datab = tmpd / "data_linked"
    (datab / "selected").mkdir(parents=True)
    shutil.copy2(vcommon.REPO / "tests" / "data" / files[0],
                 datab / files[0])
    try:
        (datab / "selected" / files[0]).symlink_to(datab / files[0])
    except OSError:
        pass
    ppath = tmpd / "profile.cfg"
    pf = prof.Profile(path=ppath)
    pf["model_key"] = "hertz_para"
    pf["rating regressor"] = "Extra Trees"
    res = tmpd / "results"
    res.mkdir()
    rec = {"raised": "", "rows": [], "expected": [], "header": "",
           "rounds": 0}
    import io
    import contextlib
    import afmformats
    crating.fit_data.cache_clear()
    # several batch runs in ONE process over the same folder and profile
    # file, the profile being edited in between (as the command line does
    # in a session): every run reports the fits of the profile in effect
    rounds = [{}, {"model_key": "hertz_cone"}, {"weight_cp": 0},
              {"model_key": "hertz_para", "fit param E value": 250.0},
              {"__folder__": datab}]
    for rno, change in enumerate(rounds):
        if "__folder__" in change:
            data = change["__folder__"]
            change = {}
        for k, v in change.items():
            pf[k] = v
        resr = res / f"round{rno}"
        resr.mkdir()
        try:
            with contextlib.redirect_stdout(io.StringIO()), \
                    warnings.catch_warnings():
                warnings.simplefilter("ignore")
                crating.fit_perform(data, resr, profile_path=ppath)
            lines = (resr / "statistics.tsv").read_text().splitlines()
            rec["header"] = lines[0]
            rec["rows"] += [[f"round{rno}"] + ln.split("\t")
                            for ln in lines[1:]]
        except BaseException as exc:
            if isinstance(exc, (KeyboardInterrupt, SystemExit)):
                raise
            rec["raised"] = type(exc).__name__ + ": " + str(exc)[:120]
        # independent expectation: fresh group, same profile
        pfn = prof.Profile(path=ppath)
        for pp in afmformats.find_data(data, modality="force-distance"):
            grp = nanite.IndentationGroup(pp)
            for idnt in grp:
                with warnings.catch_warnings():
                    warnings.simplefilter("ignore")
                    idnt.apply_preprocessing(pfn["preprocessing"],
                                             pfn["preprocessing_options"])
                    idnt.fit_model(model_key=pfn["model_key"],
                                   params_initial=pfn.get_fit_params(),
                                   range_type=pfn["range_type"],
                                   range_x=pfn["range_x"],
                                   segment=pfn["segment"],
                                   weight_cp=pfn["weight_cp"])
                    rating = idnt.rate_quality(
                        training_set=pfn["rating training set"],
                        regressor=pfn["rating regressor"])
                rec["expected"].append([
                    f"round{rno}", str(idnt.path), str(idnt.enum),
                    str(idnt.fit_properties["params_fitted"]["E"].value),
                    str(round(rating, ndigits=1))])
        rec["rounds"] += 1
    shutil.rmtree(tmpd, ignore_errors=True)
    return rec
