"""Recording and projection of ONE fit for FitPasses.tla (C04, C05, C11).

`observe_fit(idnt, kwargs)` runs idnt.fit_model(**kwargs) with the pass
recorder installed (wrapping IndentationFitter._fit and lmfit.minimize from
the harness -- no source hook) and returns the record validated by
FitPassesTrace.tla: per pass the interval actually used (as RANKS among the
sample abscissae), the point mask, the unit-frame exponents; the write-back;
and the numeric relation flags (P) of C04 computed from public outputs only.
"""
import bisect
import copy
import math
import warnings

import numpy as np

import curve_exec

RES_KEYS = ["params_fitted", "chi_sqr", "xmin", "xmax"]


class PassRecorder:
    """Records every optimiser run the library's fitting module starts, at
    the library boundary (lmfit.minimize): the points and the initial
    contact point handed over, the contact point that comes back.  Nothing
    private of the library is named or read."""
    installed = None

    def __init__(self):
        self.passes = []
        self.active = False
        self.fail_next = 0

    @classmethod
    def install(cls):
        if cls.installed is not None:
            return cls.installed
        curve_exec.OptCounter.install()
        import lmfit
        self = cls()
        prev_min = lmfit.minimize

        def minimize(*a, **kw):
            mine = curve_exec.called_from_fitter()
            cur = None
            if mine and self.active:
                params = kw.get("params", a[1] if len(a) > 1 else None)
                args = kw.get("args", a[2] if len(a) > 2 else ())
                cur = {"cp_passed": None, "x_passed": None, "cp_out": None,
                       "ok": False}
                try:
                    cur["cp_passed"] = float(params["contact_point"].value)
                except (KeyError, TypeError):
                    pass
                try:
                    cur["x_passed"] = np.array(args[0], dtype=float,
                                               copy=True)
                except (IndexError, TypeError, ValueError):
                    pass
                self.passes.append(cur)
            if mine and self.fail_next:
                self.fail_next -= 1
                raise RuntimeError("injected fault inside the optimiser")
            res = prev_min(*a, **kw)
            if cur is not None:
                cur["ok"] = True
                try:
                    cur["cp_out"] = float(res.params["contact_point"].value)
                except (KeyError, TypeError, AttributeError):
                    pass
            return res

        lmfit.minimize = minimize
        cls.installed = self
        return self


# --------------------------------------------------------------------------
def rank_table(x):
    return np.unique(np.asarray(x, dtype=float))


def rank_of(table, v):
    """2*(j+1) if v equals the j-th smallest abscissa, odd if strictly
    between, 1 below all, 2n+1 above all; +-inf handled"""
    if math.isinf(v):
        return 1 if v < 0 else 2 * len(table) + 1
    j = bisect.bisect_left(table, v)
    if j < len(table) and table[j] == v:
        return 2 * (j + 1)
    return 2 * j + 1


def exponent(ratio, k):
    """integer e with ratio == k**e, else 99 (not determinable)"""
    if k == 1 or ratio is None or ratio <= 0 or not math.isfinite(ratio):
        return 99
    e = math.log(ratio) / math.log(k)
    if abs(e - round(e)) < 1e-6:
        return int(round(e))
    return 98      # determinable but not an integer power: never acceptable


def close(a, b, rel=1e-9, scale=None):
    a = np.asarray(a, dtype=float)
    b = np.asarray(b, dtype=float)
    if a.shape != b.shape:
        return False
    nan = np.isnan(a)
    if not np.array_equal(nan, np.isnan(b)):
        return False
    if scale is None:
        scale = np.nanmax(np.abs(np.concatenate([a[~nan].ravel(),
                                                 b[~nan].ravel(), [0.]])))
    if scale == 0:
        return bool(np.all(a[~nan] == b[~nan]))
    return bool(np.all(np.abs(a[~nan] - b[~nan]) <= rel * scale))


def run_post(idnt, post):
    """what a user may do between a fit and looking at its outputs; none of
    it changes the current fit"""
    with warnings.catch_warnings():
        warnings.simplefilter("ignore")
        if post == "scan":
            idnt.compute_emodulus_mindelta()
        elif post == "estimate":
            idnt.estimate_optimal_mindelta()
        elif post == "rate":
            idnt.rate_quality(regressor="Extra Trees", training_set="zef18")
        elif post == "refit":
            idnt.fit_model()
        elif post == "initparams":
            idnt.get_initial_fit_parameters()
        elif post == "ancillaries":
            idnt.get_ancillary_parameters()
            idnt.get_initial_fit_parameters(
                model_key=idnt.fit_properties.get("model_key"),
                common_ancillaries=True, model_ancillaries=True)


def observe_fit(idnt, kwargs, label="", post=None, fault=False):
    from nanite import model
    rec = PassRecorder.install()
    rec.passes = []
    fp0 = idnt.fit_properties
    # the fit may guess the initial parameters: make the guess explicit so
    # that the stored initial contact point at fit start is known
    kw = dict(kwargs)
    out = {"label": label, "raised": ""}
    if fault:
        # the same request, interrupted by a transient fault inside the
        # optimiser first: it must not leave anything behind that makes the
        # repetition look "already done"
        rec.fail_next = 1
        try:
            with warnings.catch_warnings():
                warnings.simplefilter("ignore")
                idnt.fit_model(**copy.deepcopy(kw))
            out["fault_raised"] = False
        except BaseException as exc:
            if isinstance(exc, (KeyboardInterrupt, SystemExit)):
                raise
            out["fault_raised"] = True
        finally:
            rec.fail_next = 0
        rec.passes = []
    rec.active = True
    try:
        with warnings.catch_warnings():
            warnings.simplefilter("ignore")
            cp0 = None
            idnt.fit_model(**kw)
    except BaseException as exc:
        if isinstance(exc, (KeyboardInterrupt, SystemExit)):
            raise
        out["raised"] = type(exc).__name__
    finally:
        rec.active = False
    out["rescan_ok"] = True
    if post == "scan2" and not out["raised"]:
        # the E(depth) scan asked for twice with different sample counts
        # (plateau search off): each answer has the count that was asked for
        try:
            with warnings.catch_warnings():
                warnings.simplefilter("ignore")
                for nn in (7, 5, 9):
                    idnt.fit_properties["optimal_fit_num_samples"] = nn
                    e_, d_ = idnt.compute_emodulus_mindelta()
                    if len(e_) != nn or len(d_) != nn:
                        out["rescan_ok"] = False
        except BaseException as exc:
            if isinstance(exc, (KeyboardInterrupt, SystemExit)):
                raise
            out["post_raised"] = type(exc).__name__
        finally:
            # (whatever the scans did or refused to do: the inspection below
            # looks at a regular fit of the stored settings)
            try:
                with warnings.catch_warnings():
                    warnings.simplefilter("ignore")
                    idnt.fit_model()
            except BaseException as exc:
                if isinstance(exc, (KeyboardInterrupt, SystemExit)):
                    raise
                out["raised"] = "post:" + type(exc).__name__
    elif post and not out["raised"]:
        try:
            run_post(idnt, post)
        except BaseException as exc:
            if isinstance(exc, (KeyboardInterrupt, SystemExit)):
                raise
            out["post_raised"] = type(exc).__name__
    passes = rec.passes
    fp = idnt.fit_properties
    out["passes_raw"] = len(passes)
    if out["raised"]:
        return out
    if "hash" not in fp:
        return out
    k = float(fp["gcf_k"])
    segreq = int(fp["segment"])
    xa = fp["x_axis"]
    ya = fp["y_axis"]
    x = np.asarray(idnt[xa], dtype=float)
    y = np.asarray(idnt[ya], dtype=float)
    seg = np.asarray(idnt["segment"]).astype(int)
    table = rank_table(x)
    xr = [rank_of(table, v) for v in x]
    edelta = bool(fp["optimal_fit_edelta"])
    mode = "edelta" if edelta else \
        ("rel" if fp["range_type"] == "relative cp" else "abs")
    nsamp = int(fp["optimal_fit_num_samples"]) if edelta else 0
    req = [float(v) for v in fp["range_x"]]
    success = bool(fp.get("success", False))
    # the initial contact point the caller asked for (measured units)
    cp0 = None
    try:
        cp0 = float(kw["params_initial"]["contact_point"].value)
    except (KeyError, TypeError, AttributeError):
        pass
    span = float(np.nanmax(x) - np.nanmin(x)) or 1.0
    upper = float(max(req)) if len(req) == 2 else 0.
    sm_idx = set(np.flatnonzero(seg == segreq).tolist())

    def points_of(p):
        """indices of the samples handed to the optimiser and the power of
        k their abscissa was multiplied with (matched by value)"""
        xp = p["x_passed"]
        if xp is None:
            return [], 98
        for e in ((1, 0, 2) if k != 1 else (0,)):
            cand = x * k ** e
            table_e = {}
            for j, v in enumerate(cand.tolist()):
                table_e.setdefault(v, []).append(j)
            vals, counts = np.unique(xp, return_counts=True)
            if not all(v in table_e for v in vals.tolist()):
                continue
            idx = []
            for v, c in zip(vals.tolist(), counts.tolist()):
                own = [j for j in table_e[v] if j in sm_idx]
                oth = [j for j in table_e[v] if j not in sm_idx]
                idx += (own + oth)[:c]
            return sorted(idx), (e if k != 1 else 99)
        return [], 98

    def expected_idx(lo, hi, zero):
        if zero:
            return sorted(sm_idx)
        a_, b_ = min(lo, hi), max(lo, hi)
        return sorted(j for j in sm_idx if a_ <= x[j] <= b_)

    def near_sample(v):
        if not math.isfinite(v):
            return False
        return bool(np.any((np.abs(x - v) <= 1e-9 * span) & (x != v)))

    grid = None
    if mode == "edelta" and "optimal_fit_delta_array" in fp:
        grid = [float(v) for v in np.asarray(fp["optimal_fit_delta_array"],
                                             float)]
    rpasses = []
    g_next = 0
    scan_matched = True
    for i, p in enumerate(passes):
        idx, xexp = points_of(p)
        fuzzy = False
        if mode == "abs":
            kind = "abs"
            lo, hi = (req + [0., 0.])[:2]
            zero = lo == hi
        elif mode == "rel":
            if i == 0:
                kind, lo, hi, zero = "whole", 0., 0., True
            else:
                kind = "anchored"
                prev = passes[i - 1]["cp_out"]
                if prev is None:
                    lo, hi, zero, fuzzy = 0., 0., True, True
                else:
                    # anchored at the contact point of the pass before, in
                    # measured units
                    cpm = prev / k
                    lo, hi = req[0] + cpm, req[1] + cpm
                    zero = False
                    fuzzy = near_sample(lo) or near_sample(hi)
        else:
            last = (i == len(passes) - 1)
            if last and success and "optimal_fit_delta" in fp and \
                    expected_idx(float(fp["optimal_fit_delta"]), upper,
                                 False) == idx:
                # (an implementation that remembers the result of a scan
                # pass with the same points needs no final run: then the
                # last run is a scan pass like the others)
                kind = "final"
                lo, hi, zero = float(fp["optimal_fit_delta"]), upper, False
            else:
                kind = "scan"
                lo, hi, zero = float("nan"), upper, False
                if grid is not None:
                    # the next depth of the reported grid whose points are
                    # the ones that were fitted (depths with too few points
                    # are skipped by the library without an optimiser run)
                    for g in range(g_next, len(grid)):
                        if expected_idx(grid[g], upper, False) == idx:
                            lo, g_next = grid[g], g + 1
                            break
                    else:
                        scan_matched = False
                        lo = grid[min(g_next, len(grid) - 1)]
                else:
                    fuzzy = True
                    lo = upper
        cpexp = 99
        if p["cp_passed"] is not None and cp0 not in (None, 0.0) and k != 1:
            cpexp = exponent(p["cp_passed"] / cp0, k)
        repexp = 99      # (filled in below, for the run that was reported)
        rpasses.append({
            "rep_exp": int(repexp), "kind": kind,
            "lo": rank_of(table, min(lo, hi)),
            "hi": rank_of(table, max(lo, hi)),
            "zero": bool(zero), "fuzzy": bool(fuzzy),
            "mask": [int(j) + 1 for j in idx],
            "anchored_ok": True, "cp_exp": int(cpexp),
            "x_exp": int(xexp), "ok": bool(p["ok"]),
            "npts": len(idx)})
    out.update({
        "mode": mode, "nsamp": nsamp, "segreq": segreq,
        "seg": [int(s) for s in seg], "xr": xr,
        "req_lo": rank_of(table, min(req)) if len(req) == 2 else 0,
        "req_hi": rank_of(table, max(req)) if len(req) == 2 else 0,
        "req_zero": bool(len(req) == 2 and req[0] == req[1]),
        "passes": rpasses, "success": success,
        "success_flag_present": "success" in fp,
        "k": k, "k_not_one": bool(k != 1),
    })
    # stored initial parameters after the fit
    try:
        cps = float(fp["params_initial"]["contact_point"].value)
        out["stored_cp_exp"] = exponent(cps / cp0, k) \
            if cp0 not in (None, 0.0) and k != 1 else 99
        if cp0 not in (None, 0.0) and k == 1 and cps != cp0:
            out["stored_cp_exp"] = 98
    except (KeyError, TypeError, ZeroDivisionError):
        out["stored_cp_exp"] = 99
    # the reported contact point is that of the run whose points are the
    # reported range (the last one, or a remembered earlier one), divided
    # by k
    if success and k != 1 and rpasses:
        fr0 = np.flatnonzero(np.asarray(idnt["fit range"]).astype(bool)) \
            if "fit range" in idnt else np.array([], int)
        fin = [int(j) + 1 for j in fr0]
        cand = [j for j, rp in enumerate(rpasses)
                if rp["mask"] == fin and rp["ok"]
                and passes[j].get("cp_out") not in (None, 0.0)]
        exps = []
        for j in cand:
            try:
                exps.append(exponent(
                    float(fp["params_fitted"]["contact_point"].value)
                    / passes[j]["cp_out"], k))
            except (KeyError, TypeError, ZeroDivisionError):
                exps.append(98)
        if exps:
            rpasses[cand[-1]]["rep_exp"] = -1 if -1 in exps else exps[-1]
    # what the reported range has to be with the plateau search
    out["fin_lo"], out["fin_hi"] = 0, 0
    if mode == "edelta" and "optimal_fit_delta" in fp:
        dopt_ = float(fp["optimal_fit_delta"])
        out["fin_lo"] = rank_of(table, min(dopt_, upper))
        out["fin_hi"] = rank_of(table, max(dopt_, upper))
    # final mask as reported
    fr = np.asarray(idnt["fit range"]).astype(bool) \
        if "fit range" in idnt else np.zeros(len(x), bool)
    out["final_mask"] = [int(j) + 1 for j in np.flatnonzero(fr)]
    out["stale_keys"] = [] if success else [kk for kk in RES_KEYS if kk in fp]
    # xmin / xmax in uncorrected units
    ok = True
    if success:
        xm = x[fr]
        if xm.size:
            ok = close(fp["xmin"], xm.min(), 1e-12, scale=abs(xm.min()) or 1) \
                and close(fp["xmax"], xm.max(), 1e-12,
                          scale=abs(xm.max()) or 1)
        else:
            ok = False
    out["xminmax_ok"] = bool(ok)
    # scan
    scan = {"len": 0, "monotone": True, "first_is_deepest": True,
            "last_is_5pct": True, "dopt_inside": True,
            "final_lo_is_dopt": True, "passes_follow_grid": True}
    if mode == "edelta" and "optimal_fit_delta_array" in fp:
        d = np.asarray(fp["optimal_fit_delta_array"], float)
        e = np.asarray(fp["optimal_fit_E_array"], float)
        xs = x[seg == segreq]
        scan["len"] = int(min(len(d), len(e))) if len(d) == len(e) else -1
        dd = np.diff(d)
        scan["monotone"] = bool(np.all(dd > 0) or np.all(dd < 0))
        scan["first_is_deepest"] = bool(d[0] == xs.min())
        scan["last_is_5pct"] = bool(close(d[-1], xs.min() * .05, 1e-12,
                                          scale=abs(xs.min())))
        dopt = float(fp["optimal_fit_delta"])
        scan["dopt_inside"] = bool(d.min() <= dopt <= d.max())
        # (the passes of the search were matched to the reported grid
        # above; the final pass is judged by C05_MaskExact)
        scan["final_lo_is_dopt"] = True
        scan["passes_follow_grid"] = bool(scan_matched)
    out["scan"] = scan
    # ------------------------------------------------ C04 relation flags
    rel = {"fit_is_model": True, "nan_outside_segment": True,
           "resid_ok": True, "chi_ok": True, "fixed_kept": True,
           "within_bounds": True, "expr_ok": True, "cols_all_nan": True}
    fitc = np.asarray(idnt["fit"], float) if "fit" in idnt else None
    resc = np.asarray(idnt["fit residuals"], float) \
        if "fit residuals" in idnt else None
    sm = seg == segreq
    if success:
        md = model.models_available[fp["model_key"]]
        pf = fp["params_fitted"]
        pk = copy.deepcopy(pf)
        # (bounds opened first: lmfit clips a value to the current bounds)
        pk["contact_point"].set(min=-np.inf, max=np.inf)
        pk["contact_point"].set(value=pf["contact_point"].value * k)
        fscale = float(np.nanmax(np.abs(y))) or 1.0
        with warnings.catch_warnings():
            warnings.simplefilter("ignore")
            ref = md.model(pk, x[sm] * k)
        rel["fit_is_model"] = close(fitc[sm], ref, 1e-9, scale=fscale)
        rel["nan_outside_segment"] = bool(
            np.all(np.isnan(fitc[~sm])) and np.all(np.isnan(resc[~sm]))
            and not np.any(np.isnan(fitc[sm])))
        wcp = fp["weight_cp"]
        if wcp:
            w = np.abs(x[sm] * k - pk["contact_point"].value) / wcp
            w[w > 1] = 1
        else:
            w = np.ones(int(np.sum(sm)))
        rel["resid_ok"] = close(resc[sm], (y[sm] - fitc[sm]) * w, 1e-9,
                                scale=fscale)
        chi = float(np.sum(resc[fr] ** 2))
        rel["chi_ok"] = close(fp["chi_sqr"], chi, 1e-9, scale=chi or 1.0)
        pi = fp["params_initial"]
        want = kw.get("params_initial")
        for name, p in pf.items():
            if p.expr:
                continue
            if not p.vary and name != "contact_point":
                if not (p.value == pi[name].value):
                    rel["fixed_kept"] = False
            if not p.vary and name == "contact_point":
                if not close(p.value, pi[name].value, 1e-12,
                             scale=abs(pi[name].value) or 1):
                    rel["fixed_kept"] = False
            if p.vary:
                # the bounds the caller declared (when given), else the
                # reported ones; all in measured units
                src = want[name] if want is not None and name in want \
                    else p
                tol = 1e-12 * max(abs(p.value), 1e-300)
                if not (src.min - tol <= p.value <= src.max + tol):
                    rel["within_bounds"] = False
        if want is not None:
            for name, p in want.items():
                if p.expr and (name not in pf or pf[name].expr != p.expr):
                    rel["expr_ok"] = False
        for name, p in pf.items():
            if p.expr:
                try:
                    import asteval
                    ae = asteval.Interpreter()
                    for n2, p2 in pf.items():
                        ae.symtable[n2] = p2.value
                    # (lmfit clips the value of an expression to the
                    # parameter's own bounds)
                    val = float(np.clip(ae(p.expr), p.min, p.max))
                    if not close(p.value, val, 1e-9,
                                 scale=max(abs(val), 1e-300)):
                        rel["expr_ok"] = False
                except Exception:
                    pass
    else:
        rel["cols_all_nan"] = bool(
            fitc is not None and resc is not None
            and np.all(np.isnan(fitc)) and np.all(np.isnan(resc)))
    out["rel"] = rel
    return out


def slim_for_tlc(r):
    keep = ["mode", "nsamp", "segreq", "seg", "xr", "req_lo", "req_hi",
            "req_zero", "passes", "success", "success_flag_present",
            "k_not_one",
            "stored_cp_exp", "final_mask", "stale_keys", "xminmax_ok",
            "rescan_ok", "fin_lo", "fin_hi",
            "scan", "rel"]
    r2 = {k: r[k] for k in keep}
    r2["passes"] = [{k: v for k, v in p.items() if k != "npts"}
                    for p in r["passes"]]
    # TLC needs non-empty homogeneous sequences; sentinel 0 is never an index
    r2["final_mask"] = r["final_mask"] + [0]
    r2["stale_keys"] = r["stale_keys"] + ["_"]
    for p in r2["passes"]:
        p["mask"] = p["mask"] + [0]
    return r2


def pair_record(a, b, model_key, idnt_a, idnt_b, noise_free=True):
    """a: fit with k, b: the same fit with k = 1 (both on fresh curves).
    Returns None when the pair cannot be judged (a modulus that the data do
    not determine is arbitrary under both factors)."""
    fa, fb = idnt_a.fit_properties, idnt_b.fit_properties
    k = float(fa["gcf_k"])
    p = {"hertz_para": 1.5, "hertz_cone": 2.0, "hertz_pyr3s": 2.0}.get(
        model_key)
    q = {"cp_same": True, "bl_same": True, "fit_same": True,
         "xminmax_same": True, "e_scaled": True, "mask_same": True}
    if p is None:
        return None
    # Numeric equivalence is judged only where it is exact: contact-point
    # weighting off (the weighting distance lives in corrected units), no
    # plateau search (the plateau heuristic is chaotic on a flat E(depth)
    # curve), and for noisy data only absolute ranges (an interval anchored
    # at a fitted contact point may gain or lose a boundary sample).  The
    # structural clauses (unit-frame exponents, xmin/xmax, masks) cover the
    # other configurations.
    if fa.get("optimal_fit_edelta") or fa["weight_cp"]:
        return None
    if noise_free is False and fa["range_type"] != "absolute":
        return None
    if not (fa.get("success") and fb.get("success")):
        q["cp_same"] = bool(fa.get("success") == fb.get("success"))
        return q
    pa, pb = fa["params_fitted"], fb["params_fitted"]
    for pp in (pa, pb):
        se = pp["E"].stderr
        if pp["E"].vary and (se is None or not np.isfinite(se)
                             or se > .5 * abs(pp["E"].value)):
            return None
    depth = float(np.nanmax(np.abs(idnt_b["tip position"])))
    fscale = float(np.nanmax(np.abs(idnt_b["force"])))
    if noise_free:
        # exact data: both fits must have found the exact solution,
        # otherwise the difference is an optimiser matter (C01)
        ysum = float(np.nansum(np.asarray(idnt_b["force"]) ** 2)) or 1.
        if fa["chi_sqr"] > 1e-16 * ysum or fb["chi_sqr"] > 1e-16 * ysum:
            return None
    sa = (pa["E"].stderr or 0.) * k ** p
    sb = pb["E"].stderr or 0.
    if noise_free:
        # (with noise the minimum is flat: only the modulus is compared,
        # with a tolerance tied to its standard error)
        q["cp_same"] = abs(pa["contact_point"].value
                           - pb["contact_point"].value) <= 1e-5 * depth
        q["bl_same"] = abs(pa["baseline"].value
                           - pb["baseline"].value) <= 1e-5 * fscale
        q["fit_same"] = close(idnt_a["fit"], idnt_b["fit"], 1e-5,
                              scale=fscale)
    if fa["range_type"] == "absolute":
        q["xminmax_same"] = close([fa["xmin"], fa["xmax"]],
                                  [fb["xmin"], fb["xmax"]], 1e-9, scale=depth)
        q["mask_same"] = bool(np.array_equal(idnt_a["fit range"],
                                             idnt_b["fit range"]))
    else:
        # the interval is anchored at a FITTED contact point: a bound that
        # falls next to a sample may include it under one factor and not
        # under the other (round-off of the contact point)
        dx = 2 * float(np.max(np.abs(np.diff(
            np.asarray(idnt_b["tip position"], float)))))
        q["xminmax_same"] = bool(abs(fa["xmin"] - fb["xmin"]) <= dx
                                 and abs(fa["xmax"] - fb["xmax"]) <= dx)
    ea, eb = pa["E"].value, pb["E"].value
    q["e_scaled"] = abs(ea * k ** p - eb) <= 1e-4 * abs(eb) \
        + .05 * max(sa, sb)
    return q
