"""C06 -- preprocessing is a pure, repeatable function of raw data, steps and
options (ApplyPre / FitPre actions of Curve.tla; clauses C06_*)."""
import curve_check
import world


def run(ctx):
    quick = ctx.tier == "quick"
    sl = {k: world.SLICES[k] for k in ("pre", "pre2", "model", "poc", "smooth", "split")}
    curve_check.run_engine(
        ctx, "C06_", sl,
        n_random=120 if quick else 600, rand_len=30,
        rand_weights=dict(apply=7, fit=4, set=1, rate=0.3, scan=0.1,
                          mutate_pl=2, orphan=1),
        walk_limit=250 if quick else 600,
        curves=("syn1", "syn2", "rec1", "bad1", "bad2", "bad5", "tilt1",
                "lag1"))
    if not quick:
        curve_check.repo_test_traces(ctx, "C06_")
    ctx.assumptions += [
        "data columns are compared by sha256 over force, tip position, "
        "height (measured), height (piezo), segment, time and the set of "
        "column names; the reference is a fresh curve with the pipeline "
        "applied once (deep-copied arguments)",
        "which requests must be rejected is DECLARED from the step "
        "registry's requirement/option declarations (unknown step, required "
        "step not earlier, option name/value outside the declared choices)",
        "data columns after a rejected request are not constrained",
    ]


def replay(ctx, obj):
    return curve_check.replay(ctx, obj, "C06_")
