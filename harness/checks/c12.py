"""C12 -- the fit hash identifies data plus effective settings.

Observations <<effective state, hash>> are collected from fresh objects for
every catalogue value of every setting key (one key varied at a time, plus
representation variants, adversarial neighbours, parameter-attribute
variants, pipeline variants and single-sample data perturbations), in two
interpreter processes with different PYTHONHASHSEED, and from random driver
histories.  The verdict -- equal effective tuple <=> equal hash, with the
two documented don't-cares removed -- is computed by TLC (HashReport of
CurveTrace.tla over EffTuple of CurveClauses.tla)."""
import json
import os
import subprocess
import sys

import curve_check
import vcommon
import world
from vcommon import MachineryError

BASE = {"model_key": "m_para", "params_initial": "q_para_a"}


def enumeration():
    """histories (one fresh object each): apply(pipe) ; fit(base + variant)"""
    hist = []
    for key, vals in world.CATALOG.items():
        for vid, (_ctor, bad) in vals.items():
            if bad:
                continue
            for edelta in (False, True):
                kw = dict(BASE)
                if key == "model_key":
                    kw.pop("params_initial")
                if key == "params_initial":
                    kw["model_key"] = {"hertz_para": "m_para",
                                       "hertz_cone": "m_cone",
                                       "hertz_pyr3s": "m_pyr"}[
                        world.PARAMS_MODEL[vid]]
                kw[key] = vid
                if edelta:
                    if key in ("range_type", "optimal_fit_edelta"):
                        continue
                    kw["optimal_fit_edelta"] = "e_on"
                    kw.setdefault("optimal_fit_num_samples", "n_8")
                    if key not in ("range_x", "optimal_fit_num_samples"):
                        continue
                hist.append([{"op": "apply", "pipe": "P1"},
                             {"op": "fit", "kw": kw}])
    for p in world.PIPES:
        if p == "P0":
            continue
        hist.append([{"op": "apply", "pipe": p},
                     {"op": "fit", "kw": dict(BASE)}])
    return hist


def successions():
    """the same object fitted twice: for every ordered pair of catalogue
    values of one key (near-equal neighbours included) the second fit has
    to expose the hash of ITS settings"""
    import itertools
    hist = []
    for key, vals in world.CATALOG.items():
        good = [v for v, (_c, bad) in vals.items() if not bad]
        if key == "params_initial":
            good = [v for v in good
                    if world.PARAMS_MODEL[v] == "hertz_para"]
        if key == "model_key":
            continue
        for a, b in itertools.permutations(good, 2):
            kwa, kwb = dict(BASE), dict(BASE)
            kwa[key], kwb[key] = a, b
            hist.append([{"op": "apply", "pipe": "P1"},
                         {"op": "fit", "kw": kwa}, {"op": "fit", "kw": kwb}])
            hist.append([{"op": "apply", "pipe": "P1"},
                         {"op": "fit", "kw": kwa},
                         {"op": "set", "key": key, "val": b},
                         {"op": "fit", "kw": {}}])
    return hist


def child(out_path):
    """runs in a sub-interpreter (own PYTHONHASHSEED)"""
    hist = enumeration()
    tags = [f"enum:{i}" for i in range(len(hist))]
    traces, hashobs = [], []
    for cids in (["syn1"], ["syn1x"], ["syn1t"], ["rec1"]):
        tr, ho, _ = curve_check.execute(hist, tags, cids)
        traces += tr
        hashobs += ho
    if os.environ.get("PYTHONHASHSEED") == "0":
        hist = successions()
        tr, ho, _ = curve_check.execute(
            hist, [f"succ:{i}" for i in range(len(hist))], ["syn1"])
        traces += tr
        hashobs += ho
    json.dump(vcommon.jsonable({"hashobs": hashobs,
                                "sentinels": [t["sentinel"] for t in traces
                                              if "sentinel" in t],
                                "n": len(traces),
                                "fits": sum(1 for t in traces
                                            for e in t["events"]
                                            if e["post"]["hash"] != "none")}),
              open(out_path, "w"))


def run(ctx):
    quick = ctx.tier == "quick"
    obs = []
    sentinels = []
    fits = 0
    nhist = 0
    for seed in ((0, 4242) if quick else (0, 1, 4242)):
        out = ctx.scratch / f"hashobs_{seed}.json"
        env = dict(os.environ, PYTHONHASHSEED=str(seed))
        p = subprocess.run(
            [sys.executable, "-W", "ignore", "-c",
             "import sys; sys.path.insert(0, %r); "
             "from checks import c12; c12.child(%r)"
             % (str(vcommon.VERIF / "harness"), str(out))],
            env=env, stdout=subprocess.PIPE, stderr=subprocess.STDOUT,
            text=True)
        if p.returncode != 0:
            raise MachineryError("C12 child failed:\n" + p.stdout[-3000:])
        data = json.loads(out.read_text())
        for o in data["hashobs"]:
            o["seed"] = seed
        obs += data["hashobs"]
        sentinels += data.get("sentinels", [])
        fits += data["fits"]
        nhist += data["n"]
    # random histories add observations from long-lived objects
    import random
    rng = random.Random(ctx.seed + 99)
    hist = [curve_check.random_history(rng, 20, dict(rate=0, scan=0.05))
            for _ in range(60 if quick else 600)]
    traces, ho, _ = curve_check.execute(
        hist, [f"random:{i}" for i in range(len(hist))], ["syn1", "rec1"])
    for o in ho:
        o["seed"] = int(os.environ.get("PYTHONHASHSEED", "0") or 0)
    obs += ho
    sentinels += [t["sentinel"] for t in traces if "sentinel" in t]
    # distinct observations only (same state and hash seen twice is one)
    uniq = {}
    for o in obs:
        key = json.dumps([o[k] for k in ("xy", "pipe_fp", "sett", "rx_hi",
                                         "edelta", "hash")], sort_keys=True)
        uniq.setdefault(key, o)
    obs = [{k: o[k] for k in ("xy", "pipe_fp", "sett", "rx_hi", "edelta",
                              "hash", "cid", "reprs")}
           for o in uniq.values()]
    failed, pairs, states = curve_check.validate(ctx, traces[:1], obs, "c12",
                                                 sentinels=sentinels)
    if curve_check.SENTINEL_FAILED:
        ctx.report("C12_ProcessHistoryFree|"
                   + ",".join(curve_check.SENTINEL_FAILED),
                   "default-everything fits on FRESH objects expose different "
                   "hashes / results depending on what the process did before "
                   "and on the interpreter's hash seed (fields that differ: "
                   f"{list(curve_check.SENTINEL_FAILED)})",
                   {"kind": "sentinel",
                    "fields": list(curve_check.SENTINEL_FAILED)})
    ctx.coverage["sentinel_runs"] = len(sentinels)
    ctx.tlc_states += states + len(obs)
    ctx.tlc_transitions += len(obs) * (len(obs) - 1) // 2
    ctx.traces = nhist + len(traces)
    for a, b in pairs:
        diff = sorted(k for k in a["sett"] if a["sett"][k] != b["sett"][k])
        same_hash = a["hash"] == b["hash"]
        kind = "collision" if same_hash else "unstable"
        vals = ";".join(f"{k}={a['reprs'].get(k)}~{b['reprs'].get(k)}"
                        for k in diff[:2])
        fp = f"C12_HashInjective|{kind}|differs:{vals or 'none'}" \
             f"|xy:{a['xy'] == b['xy']}|pipe:{a['pipe_fp'] == b['pipe_fp']}"
        ctx.report(fp, f"hash {kind}: two fits "
                   + ("share a hash although they differ in "
                      if same_hash else
                      "have different hashes although equal up to ")
                   + f"{diff or 'nothing'} (x/y data equal: "
                   f"{a['xy'] == b['xy']}, pipeline equal: "
                   f"{a['pipe_fp'] == b['pipe_fp']}); "
                   f"values: {describe_vals(a, b, diff)}",
                   {"kind": "hashpair", "a": a, "b": b})
    ctx.coverage.update({
        "hash_observations_distinct": len(obs),
        "pairs_compared_by_tlc": len(obs) * (len(obs) - 1) // 2,
        "fits_observed": fits,
        "hash_seeds": [0, 4242] if quick else [0, 1, 4242],
        "pair_violations": len(pairs),
    })
    ctx.sample(obs[0])
    ctx.sample(obs[-1])
    ctx.assumptions += [
        "the effective tuple is built in TLA+ (EffTuple) from per-key "
        "normal-form ids computed by the harness (tuple=list, int=float, "
        "dict order, 'approach'=0); x/y data identity = sha256 of the two "
        "axis columns",
        "'lower range bound' is read as min(range_x)",
    ]


def describe_vals(a, b, diff):
    return {k: [a["reprs"].get(k), b["reprs"].get(k)] for k in diff[:3]}


def replay(ctx, obj):
    print("hash pair replays are informational:", json.dumps(obj)[:600])
    return False
