"""C18 -- the model registry accepts only complete, consistent models and
stays consistent (Registry.tla)."""
import concurrent.futures as cf
import json
import random

import registry_check as rc
import vcommon


def run(ctx):
    rng = random.Random(ctx.seed * 17 + 3)
    muts = rc.mutants()
    fls, dirs = rc.files(ctx.scratch)
    world = rc.build_world(muts, fls)
    wpath = ctx.scratch / "regworld.json"
    wpath.write_text(json.dumps(world))
    res = vcommon.tlc("Registry.tla", "Registry.cfg", ctx.scratch,
                      env={"REGWORLD": wpath},
                      extra=[], timeout=3000)
    vcommon.need_ok(res, "Registry design")
    vcommon.need_actions(res, ["Register", "Deregister", "LoadFile"],
                         "Registry design")
    ctx.add_tlc(res, "Registry.tla (all histories of <= "
                     "4 calls over every mutant and file)")
    hists = rc.histories(ctx.tier, rng, muts, fls)
    nproc = min(vcommon.NCPU, 16)
    chunks = [hists[i::nproc] for i in range(nproc)]
    import multiprocessing as mp
    with cf.ProcessPoolExecutor(max_workers=nproc,
                                mp_context=mp.get_context("spawn")) as pool:
        parts = list(pool.map(rc.run_histories,
                              [(c, str(ctx.scratch)) for c in chunks]))
    traces = [t for p in parts for t in p]
    seeds = rc.seed_cases()
    failed, sfailed, states = rc.validate(ctx, traces, seeds, wpath, "main")
    ctx.tlc_states += states
    ctx.tlc_transitions += sum(len(t["events"]) for t in traces)
    ctx.traces = len(traces) + len(seeds)
    for (ti, ei), clauses in sorted(failed.items()):
        tr = traces[ti]
        ev = tr["events"][ei]
        for cl in clauses:
            ops = tr["hist"]["ops"][:ei + 1]
            fp = f"{cl}|{sig(ops[-1])}|after:{sig(ops[-2]) if ei else ''}" \
                 f"|plug={tr['hist']['plug'] if ev['op'] == 'load' else '-'}"
            ctx.report(fp, f"{cl} fails after {ops} (plugin dir on sys.path: "
                       f"{tr['hist']['plug']}, dont_write_bytecode: "
                       f"{tr['hist']['dwb']}): out={ev['out']} "
                       f"{ev['errclass_exact']} defaults_ok="
                       f"{ev['defaults_ok']} like_shipped="
                       f"{ev['like_shipped']} registry="
                       f"{[p for p in ev['post']['reg'] if p[0].startswith('verif')]}",
                       {"kind": "registry", "hist": tr["hist"],
                        "upto": ei + 1, "clause": cl})
    for si, clauses in sorted(sfailed.items()):
        for cl in clauses:
            ctx.report(f"{cl}|{json.dumps(seeds[si]['anc'], sort_keys=True)}",
                       f"{cl} fails for ancillaries {seeds[si]['anc']}: "
                       f"initial values taken from {seeds[si]['init']} "
                       f"{seeds[si]['exc']}",
                       {"kind": "seed", "anc": seeds[si]["anc"]})
    ctx.coverage.update({
        "module_mutants": len(muts),
        "faulty_mutants": len(world["faulty"]) - 1,
        "files": len(fls), "histories": len(hists),
        "calls": sum(len(t["events"]) for t in traces),
        "seed_cases": len(seeds), "events_rejected": len(failed),
    })
    ctx.sample({"hist": traces[5]["hist"],
                "out": [(e["out"], e["errclass_exact"])
                        for e in traces[5]["events"]]})
    ctx.sample({"hist": traces[-1]["hist"],
                "out": [(e["out"], e["errclass_exact"])
                        for e in traces[-1]["events"]]})
    ctx.sample(seeds[5])
    ctx.assumptions += [
        "module mutants are built in memory from one valid template; which "
        "mutants are faulty is declared from the statement (missing "
        "attribute incl. model_func and ancillary lists, list length "
        "mismatches, duplicate names, defaults out of order or fewer than "
        "keys)",
        "process-wide state (models_available, sys.path, sys.modules, "
        "sys.dont_write_bytecode) is snapshotted and restored around every "
        "history",
    ]


def sig(op):
    return ":".join(str(x) for x in op)


def replay(ctx, obj):
    muts = rc.mutants()
    fls, dirs = rc.files(ctx.scratch)
    world = rc.build_world(muts, fls)
    wpath = ctx.scratch / "regworld.json"
    wpath.write_text(json.dumps(world))
    if obj["kind"] == "seed":
        seeds = [s for s in rc.seed_cases() if s["anc"] == obj["anc"]]
        tr = rc.run_histories(([{"plug": False, "dwb": False,
                                 "ops": [["register", "A"]]}],
                               str(ctx.scratch)))
        failed, sfailed, _ = rc.validate(ctx, tr, seeds, wpath, "replay")
        print(seeds, sfailed)
        return not sfailed
    hist = dict(obj["hist"], ops=obj["hist"]["ops"][:obj["upto"]])
    tr = rc.run_histories(([hist], str(ctx.scratch)))
    failed, sfailed, _ = rc.validate(ctx, tr, rc.seed_cases()[:1], wpath,
                                     "replay")
    print([(e["op"], e["arg"], e["out"], e["errclass_exact"])
           for e in tr[0]["events"]], failed)
    return not failed
