"""C13 -- every registered model obeys the structural model contract
(ModelContract.tla)."""
import json
import random

import modelcontract_check as mc
import vcommon
from vcommon import MachineryError


def run(ctx):
    rng = random.Random(ctx.seed * 5 + 2)
    res = vcommon.tlc("ModelContractMC.tla", "ModelContractMC.cfg",
                      ctx.scratch)
    vcommon.need_ok(res, "ModelContract design")
    ctx.add_tlc(res, "ModelContractMC.tla (wrapper over all integer "
                     "abscissae of length <= 4, four user models)")
    cases = mc.eval_cases(ctx.tier, rng)
    evals = mc.run_evals(cases, rng)
    meta = mc.meta_cases()
    failed, mfailed = {}, {}
    states = 0
    batch = 40000
    for b0 in range(0, len(evals), batch):
        path = ctx.scratch / f"c13_batch_{b0}.json"
        chunk = evals[b0:b0 + batch]
        path.write_text(json.dumps({"evals": chunk, "meta":
                                    meta if b0 == 0 else meta[:1]}))
        t = vcommon.tlc("ModelContractTrace.tla", "ModelContractTrace.cfg",
                        ctx.scratch, env={"TRACE_FILE": path}, workers=1,
                        coverage=False, timeout=3000, jvm_opts=["-Xmx8g"])
        path.unlink()
        if t.violated or t.error:
            raise MachineryError("ModelContractTrace failed:\n"
                                 + vcommon.err_excerpt(t.stdout))
        states += t.distinct
        for obj in t.printed():
            if "eval" in obj:
                failed[b0 + obj["eval"] - 1] = sorted(obj["failed"])
            elif "meta" in obj and b0 == 0:
                mfailed[obj["meta"] - 1] = sorted(obj["failed"])
    ctx.tlc_states += states
    ctx.tlc_transitions += len(evals) + len(meta)
    ctx.traces = len(evals) + len(meta)
    for i, clauses in sorted(failed.items()):
        e = evals[i]
        for cl in clauses:
            ctx.report(f"{cl}|{e['name']}|x={e['x']}|cp={e['cp']}"
                       f"|cpr={e['cp_res']}|wd={e['wd']}",
                       f"{cl} fails for user model '{e['name']}', abscissa "
                       f"{e['x']}, contact point {e['cp']} (residuals: "
                       f"{e['cp_res']}, weighting distance {e['wd']}): "
                       f"model -> {e['out']}, user function saw {e['seen']}, "
                       f"residuals {e['res']} {e['raised']}",
                       {"kind": "eval", "case": [e["name"], e["x"], e["cp"]]})
    for i, clauses in sorted(mfailed.items()):
        m = meta[i]
        for cl in clauses:
            ctx.report(f"{cl}|{m['model']}|{m['orient']}|{m.get('point')}",
                       f"{cl} fails for registered model {m['model']} "
                       f"({m['orient']}ending abscissa): {m}",
                       {"kind": "meta", "model": m["model"]})
    ctx.coverage.update({
        "wrapper_evaluations": len(evals),
        "registered_models_checked": sorted({m["model"] for m in meta}),
        "metamorphic_records": len(meta),
    })
    ctx.sample(evals[100])
    ctx.sample(meta[0])
    ctx.assumptions += [
        "the four user models exist twice (TLA+ and Python) and work on "
        "small integers, so all values are exact in floating point",
        "metamorphic relations of the real models use binary-exact inputs; "
        "tolerance 1e-9 of the force range",
    ]


def replay(ctx, obj):
    print(obj)
    return False
