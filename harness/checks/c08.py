"""C08 -- contact-point estimators return a usable, scale-independent index
(Poc.tla)."""
import concurrent.futures as cf
import itertools
import json
import random
import warnings

import numpy as np

import vcommon
from vcommon import MachineryError

METHODS = ["deviation_from_baseline", "fit_constant_line",
           "fit_constant_polynomial", "fit_line_polynomial",
           "frechet_direct_path", "gradient_zero_crossing"]
EXACT = ["deviation_from_baseline", "frechet_direct_path"]
ARITH = ["deviation_from_baseline", "frechet_direct_path",
         "gradient_zero_crossing"]
Q = 2.0 ** -50        # binary grid the real-valued force arrays live on
# degenerate inputs for which NO estimator can have an answer: the fallback
# is owed; for the others (no baseline, very short) only the envelope
NO_ANSWER = {"constant", "constant_zero", "decreasing", "max_first", "single"}


def call(force, method):
    from nanite import poc
    rec = {"raised": "", "cp": -1, "is_int": False, "details_same": True}
    try:
        with warnings.catch_warnings():
            warnings.simplefilter("ignore")
            cp = poc.compute_poc(np.array(force, copy=True), method)
            cp2, det = poc.compute_poc(np.array(force, copy=True), method,
                                       ret_details=True)
        rec["is_int"] = bool(isinstance(cp, (int, np.integer))
                             or (isinstance(cp, float) and cp.is_integer()))
        rec["cp"] = int(cp) if rec["is_int"] else -1
        rec["details_same"] = bool(cp2 == cp and isinstance(det, dict))
    except BaseException as exc:
        if isinstance(exc, (KeyboardInterrupt, SystemExit)):
            raise
        rec["raised"] = type(exc).__name__
    return rec


def int_case(job):
    f, method = job
    rec = call(np.array(f, dtype=float), method)
    rec.update({"f": list(f) + [0], "n": len(f), "method": method})
    return rec


def int_arrays(tier, rng):
    out = []
    for n in range(1, 8):
        out += [list(t) for t in itertools.product(range(3), repeat=n)]
    # ramps without any baseline (the contact is the first sample)
    out += [[2, 3, 5, 7, 8, 8, 8, 9, 11, 11, 11],
            [3, 5, 8, 9, 10, 13, 12, 15, 16, 17, 17, 18, 18, 17],
            [2, 5, 8, 10, 13, 14, 14, 15, 17, 19, 22, 23, 26, 27, 28, 31,
             33, 35, 35, 37]]
    for n in range(8, 24, 3):
        out.append([2 + 2 * i + (i % 3 == 0) for i in range(n)])
    k = 1500 if tier == "quick" else 20000
    for _ in range(k):
        n = rng.choice([10, 11, 12, 20, 21, 30, 40])
        nb = rng.randrange(0, n)
        base = [rng.choice([2, 2, 2, 1, 3]) for _ in range(nb)]
        ramp, v = [], 2
        for _ in range(n - nb):
            v += rng.choice([0, 1, 1, 2, 3, -1])
            ramp.append(max(v, 0))
        tail = [max(ramp[-1] - i, 0) for i in range(rng.randrange(0, 4))] \
            if ramp else []
        out.append((base + ramp + tail)[:45])
    return out


def quant(a):
    return np.round(np.asarray(a, float) / Q) * Q


def real_arrays(tier, rng):
    import synth
    arrs = []
    for model in ("hertz_para", "hertz_cone", "sneddon_spher_approx"):
        for noise in (0., 2e-11, 1e-10):
            for z0 in (3e-6, 1e-6, 2e-7):        # baseline length
                for tilt in (0., 5e-5):
                    c = synth.make_curve(n_app=rng.choice([200, 600, 1500]),
                                         n_ret=rng.choice([50, 300]),
                                         model_key=model, noise=noise,
                                         z0=z0, tilt=tilt,
                                         seed=rng.randrange(999),
                                         baseline=rng.choice([0., 3e-10]))
                    lab = "synthetic" if noise or tilt else "synthetic_clean"
                    if lab == "synthetic_clean":
                        # where the tip position crosses zero
                        napp = int(np.sum(np.asarray(c["segment"]) == 0))
                        true = int(np.argmin(np.abs(
                            np.linspace(z0, -1e-6, napp))))
                        lab = f"synthetic_clean:{true}"
                    arrs.append((lab, quant(c["force"])))
    # one very long noise-free curve (longer than any buffer or sub-sampling
    # limit a library might have: 2^15, 2^16 samples)
    for napp, z0 in ((40000, 3e-6), (70000, 1e-6 * 1.5)):
        c = synth.make_curve(n_app=napp, n_ret=50, model_key="hertz_para",
                             noise=0., z0=z0, seed=1, baseline=0.)
        true = int(np.argmin(np.abs(np.linspace(z0, -1e-6, napp))))
        arrs.append((f"synthetic_clean:{true}", quant(c["force"])))
    for name in synth.RECORDED + [
            "fmt-jpk-fd_single_bad_2017-01-16_4.jpk-force"]:
        c = synth.load_recorded(name)
        arrs.append((name, quant(c["force"])))
    # degenerate inputs
    deg = [("constant", np.full(300, 1.5e-9)),
           ("constant_zero", np.zeros(50)),
           ("decreasing", quant(np.linspace(2e-9, 0, 400))),
           ("no_baseline", quant(np.linspace(0, 2e-9, 400))),
           ("max_first", quant(np.r_[3e-9, np.linspace(0, 2e-9, 200)])),
           ("two_points", quant(np.array([0., 1e-9]))),
           ("single", np.array([1e-9])),
           ("short5", quant(np.linspace(0, 1e-9, 5))),
           ("short7", quant(np.r_[0, 0, 0, 0, 1e-10, 5e-10, 1e-9]))]
    if tier == "quick":
        clean = [a for a in arrs if a[0].startswith("synthetic_clean")]
        other = [a for a in arrs if not a[0].startswith("synthetic_clean")]
        arrs = clean + rng.sample(other, 8) + arrs[-4:]
    return arrs, deg


def env_case(job):
    label, force, method, degenerate = job
    force = np.asarray(force, float)
    rec = call(force, method)
    rec.update({"n": int(force.size), "method": method, "label": label,
                "degenerate": bool(degenerate), "pow2_same": True,
                "shift_same": True, "scale_close": True,
                "bigshift_close": True, "clean": False, "err_permille": 0,
                "fallback_ok": True})
    if rec["raised"]:
        return rec
    n = force.size
    if label.startswith("synthetic_clean:"):
        # distance to the true contact, in thousandths of the array length
        rec["clean"] = True
        rec["err_permille"] = int(round(
            1000 * abs(rec["cp"] - int(label.split(":")[1])) / n))
    if degenerate:
        npre = int(np.argmax(force))
        rec["fallback_ok"] = rec["cp"] in (n // 2, npre // 2)
        return rec
    for c in (2.0, .5, 2.0 ** 10):
        r = call(force * c, method)
        if r["raised"] or r["cp"] != rec["cp"]:
            rec["pow2_same"] = False
    span = float(np.max(force) - np.min(force))
    for k in (1, -3):
        # a shift on the same binary grid: force + c is exact
        c = k * round(span / Q / 4) * Q
        r = call(force + c, method)
        if r["raised"] or r["cp"] != rec["cp"]:
            rec["shift_same"] = False
    for k in (2 ** 18, -3 * 2 ** 17):
        c = k * round(span / Q) * Q
        if not np.array_equal((force + c) - c, force):
            continue          # (not exact for this array: not a fair test)
        r = call(force + c, method)
        if r["raised"] or abs(r["cp"] - rec["cp"]) > 1:
            rec["bigshift_close"] = False
    if method in ARITH:
        for c in (3.0, .3, 1e9):
            r = call(force * c, method)
            if r["raised"] or abs(r["cp"] - rec["cp"]) > 1:
                rec["scale_close"] = False
    return rec


def run(ctx):
    rng = random.Random(ctx.seed * 29 + 6)
    res = vcommon.tlc("PocMC.tla", "PocMC.cfg", ctx.scratch)
    vcommon.need_ok(res, "Poc design")
    ctx.add_tlc(res, "PocMC.tla (transcribed estimators on all integer "
                     "arrays of length <= 7 over 0..2)")
    ints = int_arrays(ctx.tier, rng)
    jobs = [(f, m) for f in ints for m in EXACT]
    # envelope of the other four on a sample of the integer arrays
    sample = rng.sample(ints, 400 if ctx.tier == "quick" else 4000)
    # (the ramps without a baseline always)
    sample += [f for f in ints if len(f) >= 8 and f[0] < f[1] < f[2]
               and f not in sample][:40]
    jobs += [(f, m) for f in sample for m in METHODS if m not in EXACT]
    reals, deg = real_arrays(ctx.tier, rng)
    ejobs = [(lab, a, m, False) for lab, a in reals for m in METHODS] + \
            [(lab, a, m, lab in NO_ANSWER) for lab, a in deg
             for m in METHODS]
    with cf.ProcessPoolExecutor(max_workers=min(vcommon.NCPU, 16)) as pool:
        irecs = list(pool.map(int_case, jobs, chunksize=64))
        erecs = list(pool.map(env_case, ejobs, chunksize=2))
    failed_i, failed_e = {}, {}
    states = 0
    batch = 20000
    for b0 in range(0, len(irecs), batch):
        path = ctx.scratch / f"c08_batch_{b0}.json"
        path.write_text(json.dumps(vcommon.jsonable({
            "ints": irecs[b0:b0 + batch],
            "envelopes": [{k: v for k, v in r.items() if k != "label"}
                          for r in (erecs if b0 == 0 else erecs[:1])]})))
        t = vcommon.tlc("PocTrace.tla", "PocTrace.cfg", ctx.scratch,
                        env={"TRACE_FILE": path}, workers=1, coverage=False,
                        timeout=3000, jvm_opts=["-Xmx8g"])
        path.unlink()
        if t.violated or t.error:
            raise MachineryError("PocTrace failed:\n"
                                 + vcommon.err_excerpt(t.stdout))
        states += t.distinct
        for obj in t.printed():
            if "int" in obj:
                failed_i[b0 + obj["int"] - 1] = sorted(obj["failed"])
            elif "env" in obj and b0 == 0:
                failed_e[obj["env"] - 1] = sorted(obj["failed"])
    ctx.tlc_states += states
    ctx.tlc_transitions += len(irecs) + len(erecs)
    ctx.traces = len(irecs) + len(erecs)
    for i, clauses in sorted(failed_i.items()):
        r = irecs[i]
        for cl in clauses:
            ctx.report(f"{cl}|{r['method']}|{r['f'][:r['n']]}",
                       f"{cl} fails for {r['method']} on the integer force "
                       f"array {r['f'][:r['n']]}: returned {r['cp']} "
                       f"(integer: {r['is_int']}) {r['raised']}",
                       {"kind": "int", "f": r["f"][:r["n"]],
                        "method": r["method"]})
    for i, clauses in sorted(failed_e.items()):
        r = erecs[i]
        for cl in clauses:
            ctx.report(f"{cl}|{r['method']}|{r['label']}|n={r['n']}",
                       f"{cl} fails for {r['method']} on '{r['label']}' "
                       f"(n={r['n']}): cp={r['cp']} {r['raised']} "
                       f"pow2={r['pow2_same']} shift={r['shift_same']} "
                       f"close={r['scale_close']} fallback="
                       f"{r['fallback_ok']}",
                       {"kind": "env", "label": r["label"],
                        "method": r["method"]})
    ctx.coverage.update({
        "integer_arrays": len(ints), "integer_records": len(irecs),
        "real_valued_arrays": len(reals), "degenerate_arrays": len(deg),
        "envelope_records": len(erecs),
    })
    ctx.sample({k: irecs[3000][k] for k in ("f", "n", "method", "cp")})
    ctx.sample({k: erecs[0][k] for k in ("label", "n", "method", "cp",
                                         "pow2_same", "shift_same")})
    ctx.assumptions += [
        "real-valued force arrays are rounded to a binary grid (2^-50 N) so "
        "that power-of-two factors AND the tested shifts are exact in "
        "floating point: the estimate must then be identical, also for the "
        "three Nelder-Mead based estimators",
        "for other factors (3, 0.3, 1e9) 'within one sample' is judged for "
        "the three arithmetic estimators only",
        "the fallback may be the middle of the array or of its approach "
        "part; estimator accuracy w.r.t. the true contact is not judged",
    ]


def replay(ctx, obj):
    if obj["kind"] == "int":
        print(int_case((obj["f"], obj["method"])))
    return False
