"""C03 -- fit results depend only on data and current settings (Curve.tla)."""
import curve_check
import world


def slices(ctx):
    sl = {k: world.SLICES[k] for k in ("model", "range", "pre", "alias", "bounds")}
    pairs = world.pair_slices()
    names = sorted(pairs)
    if ctx.tier == "quick":
        import random
        rng = random.Random(ctx.seed)
        names = rng.sample(names, 6)
    for n in names:
        sl[n] = pairs[n]
    return sl


def run(ctx):
    quick = ctx.tier == "quick"
    curve_check.run_engine(
        ctx, "C03_", slices(ctx),
        n_random=150 if quick else 600, rand_len=30,
        walk_limit=120 if quick else 200)
    if not quick:
        curve_check.repo_test_traces(ctx, "C03_")
    ctx.assumptions += [
        "fresh-object oracle: the reference for 'current' results is the "
        "same library run once on a new object with deep-copied arguments "
        "(metamorphic oracle for history independence)",
        "results are compared bit-for-bit (float.hex / sha256 of columns)",
        "stale per-point columns while no hash is exposed are not judged",
    ]


def replay(ctx, obj):
    return curve_check.replay(ctx, obj, "C03_")
