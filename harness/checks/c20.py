"""C20 -- loading yields one object per recorded curve; maps put values at
their pixel (GroupMap.tla)."""
import concurrent.futures as cf
import json
import multiprocessing as mp
import random

import groupmap_check as gm
import vcommon
from vcommon import MachineryError


def run(ctx):
    rng = random.Random(ctx.seed * 19 + 4)
    res = vcommon.tlc("MC_GroupMap.tla", "GroupMap.cfg", ctx.scratch,
                      timeout=3000)
    vcommon.need_ok(res, "GroupMap design")
    vcommon.need_actions(res, ["Fit", "FitFails", "Edit", "Repre", "Rate", "GetMap"],
                         "GroupMap design")
    ctx.add_tlc(res, "GroupMap.tla (3 curves on a 2x2 grid, 2 values)")
    specs = gm.map_specs(ctx.tier, rng)
    nproc = min(vcommon.NCPU, 16)
    with cf.ProcessPoolExecutor(max_workers=nproc,
                                mp_context=mp.get_context("spawn")) as pool:
        maps = list(pool.map(gm.run_map,
                             [(s, str(ctx.scratch)) for s in specs],
                             chunksize=2))
        loads = pool.submit(gm.load_records, str(ctx.scratch)).result()
    path = ctx.scratch / "c20_batch.json"
    path.write_text(json.dumps(vcommon.jsonable({
        "maps": [{k: v for k, v in m.items() if k not in ("spec", "loaded")}
                 for m in maps],
        "loads": [{k: v for k, v in r.items()
                   if k not in ("label", "raised", "cases", "ncallbacks")}
                  for r in loads]})))
    t = vcommon.tlc("GroupMapTrace.tla", "GroupMapTrace.cfg", ctx.scratch,
                    env={"TRACE_FILE": path}, workers=1, coverage=False,
                    timeout=3000, jvm_opts=["-Xmx8g"])
    if t.violated or t.error:
        raise MachineryError("GroupMapTrace failed:\n"
                             + vcommon.err_excerpt(t.stdout))
    ctx.tlc_states += t.distinct
    ctx.tlc_transitions += t.generated
    ctx.traces = len(maps) + len(loads)
    for obj in t.printed():
        if "map" in obj:
            m = maps[obj["map"] - 1]
            for li in obj["badevents"]:
                ev = m["events"][li - 1]
                hist = [(e["op"], e["c"] if e["op"] != "getmap" else e["f"])
                        for e in m["events"][:li]]
                ctx.report(
                    f"C20_MapIsCurrent|{ev['f']}|shape={m['shape']}"
                    f"|{hist[-3:]}",
                    f"get_qmap('{ev['f']}') on a {m['shape']} map (scan "
                    f"order {m['spec']['order']}) does not show the current "
                    f"values after {hist}: got {ev['grid']} (warned="
                    f"{ev['warned']})",
                    {"kind": "map", "spec": m["spec"], "upto": li})
        elif "load" in obj:
            r = loads[obj["load"] - 1]
            for cl in obj["failed"]:
                ctx.report(f"{cl}|{r['label']}",
                           f"{cl} fails for {r['label']}: {r}",
                           {"kind": "load", "label": r["label"]})
    nget = sum(1 for m in maps for e in m["events"] if e["op"] == "getmap")
    ctx.coverage.update({
        "maps": len(maps), "map_events": sum(len(m["events"]) for m in maps),
        "get_qmap_calls_validated": nget,
        "load_records": len(loads),
        "shapes": sorted({tuple(m["shape"]) for m in maps}),
    })
    ctx.sample({"map": maps[0]["spec"],
                "events": [(e["op"], e["c"], e["f"])
                           for e in maps[0]["events"]][:10]})
    ctx.sample(loads[0])
    ctx.sample(loads[-1])
    ctx.assumptions += [
        "the value a fit / rating event contributes is read from the "
        "curve's public result right after that call (Pa, nm, rating); the "
        "map must show exactly these numbers at the curve's pixel",
        "for recorded files the number of recorded curves is the one "
        "afmformats reports; proprietary-format parsing is not re-verified",
    ]


def replay(ctx, obj):
    if obj["kind"] == "map":
        m = gm.run_map((obj["spec"], str(ctx.scratch)))
        print([(e["op"], e["c"], e["f"], e["grid"]) for e in m["events"]])
    return False
