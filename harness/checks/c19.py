"""C19 -- the CLI profile persists what was entered and every producible
profile can be fitted (Profile.tla)."""
import concurrent.futures as cf
import json
import multiprocessing as mp
import random

import profile_check as pc
import vcommon
from vcommon import MachineryError


def build_world():
    vals = pc.Values()
    d = pc.defaults(vals)
    keys = sorted(pc.STORE_VALUES)
    # design-level dialogue: one prompt per key that has a prompt, answers
    # classified by the design rule
    prompts = ["preproc", "model", "rtype", "weight", "ts", "reg"]
    pk = {p: pc.PROMPT_KEY[p] for p in prompts}
    answers = {
        "preproc": [{"id": "1,2,4", "valid": True, "value": "pp_ok"},
                    {"id": "4", "valid": False, "value": "pp_bad"}],
        "model": [{"id": "2", "valid": True, "value": "mk_para"}],
        "rtype": [{"id": "relative cp", "valid": True, "value": "rt_rel"},
                  {"id": "relative", "valid": False, "value": "rt_bad"}],
        "weight": [{"id": "0.25", "valid": True, "value": "wc_a"}],
        "ts": [{"id": "zef18", "valid": True, "value": "ts_ok"},
               {"id": "nope", "valid": False, "value": "ts_bad"}],
        "reg": [{"id": "5", "valid": True, "value": "rr_a"}],
    }
    vals_t = {k: ["_"] + sorted(pc.STORE_VALUES[k]) for k in keys}
    return {"keys": ["_"] + keys, "default": d, "prompts": prompts,
            "promptkey": pk, "answers": answers, "vals": vals_t,
            "unfittable": ["_", "pp_bad", "rt_bad", "ts_bad"]}


def run(ctx):
    rng = random.Random(ctx.seed * 13 + 1)
    world = build_world()
    wpath = ctx.scratch / "profworld.json"
    wpath.write_text(json.dumps(world))
    res = vcommon.tlc("Profile.tla", "Profile.cfg", ctx.scratch,
                      env={"PROFWORLD": wpath}, timeout=3000)
    vcommon.need_ok(res, "Profile design")
    vcommon.need_actions(res, ["Set", "Get", "StartSetup", "Skip", "Answer",
                               "EndSetup"], "Profile design")
    ctx.add_tlc(res, "Profile.tla (store with 2 objects + setup dialogue)")
    hists = pc.store_histories(ctx.tier, rng)
    scripts = pc.dialogue_scripts(ctx.tier, rng)
    nproc = min(vcommon.NCPU, 16)
    with cf.ProcessPoolExecutor(max_workers=nproc,
                                mp_context=mp.get_context("spawn")) as pool:
        fs = [pool.submit(pc.run_store, (hists[i::nproc], str(ctx.scratch)))
              for i in range(nproc)]
        fd = [pool.submit(pc.run_dialogues,
                          (scripts[i::nproc], str(ctx.scratch)))
              for i in range(nproc)]
        fb = pool.submit(pc.run_batch, str(ctx.scratch))
        store = [t for f in fs for t in f.result()]
        dlg = [d for f in fd for d in f.result()]
        batch = fb.result()
    path = ctx.scratch / "c19_batch.json"
    path.write_text(json.dumps(vcommon.jsonable({
        "store": [{"initmap": t["initmap"], "events": [
            {k: v for k, v in e.items() if k != "exc"} for e in t["events"]]}
            for t in store],
        "dialogues": [{"raised": d["raised"], "fit_ok": d["fit_ok"],
                       "answers": d["answers"] or [
                           {"prompt": "_", "answer": "", "valid": True,
                            "stored_ok": True, "reasked_ok": True,
                            "n_given": 0}]} for d in dlg],
        "batch": {"raised": batch["raised"],
                  "rows": batch["rows"] or [["_"]],
                  "expected": batch["expected"] or [["_"]]}})))
    tres = vcommon.tlc("ProfileTrace.tla", "ProfileTrace.cfg", ctx.scratch,
                       env={"TRACE_FILE": path, "PROFWORLD": wpath},
                       workers=1, coverage=False, timeout=3000,
                       jvm_opts=["-Xmx8g"])
    if tres.violated or tres.error:
        raise MachineryError("ProfileTrace failed:\n"
                             + vcommon.err_excerpt(tres.stdout))
    ctx.tlc_states += tres.distinct
    ctx.tlc_transitions += sum(len(t["events"]) for t in store) + len(dlg)
    ctx.traces = len(store) + len(dlg) + 1
    for obj in tres.printed():
        if "store" in obj:
            tr = store[obj["store"] - 1]
            ev = tr["events"][obj["i"] - 1]
            for cl in obj["failed"]:
                ops = tr["hist"]["ops"][:obj["i"]]
                ctx.report(f"{cl}|{tr['form']}|{ops[-1]}",
                           f"{cl} fails on a {tr['form']} profile file after "
                           f"{ops}: out={ev['out']} {ev['exc']} "
                           f"ret={ev['ret']} post[{ev['key']}]="
                           f"{ev['post'].get(ev['key'])}",
                           {"kind": "store", "hist": tr["hist"],
                            "upto": obj["i"]})
        elif "dlg" in obj:
            d = dlg[obj["dlg"] - 1]
            for cl in obj["failed"]:
                bad = [a for a in d["answers"]
                       if not a["stored_ok"] or not a["reasked_ok"]]
                ctx.report(f"{cl}|{json.dumps(d['script'], sort_keys=True)}",
                           f"{cl} fails for the setup script {d['script']}: "
                           f"raised={d['raised']!r} fit_ok={d['fit_ok']} "
                           f"{d['fit_exc']} offending answers={bad} "
                           f"transcript={d['transcript'][:30]}",
                           {"kind": "dialogue", "script": d["script"]})
        elif "batch" in obj:
            for cl in obj["failed"]:
                ctx.report(f"{cl}|batch",
                           f"{cl}: statistics rows {batch['rows']} expected "
                           f"{batch['expected']} {batch['raised']}",
                           {"kind": "batch"})
    ctx.coverage.update({
        "store_histories": len(store),
        "store_events": sum(len(t["events"]) for t in store),
        "setup_scripts": len(dlg),
        "setup_scripts_that_raised": sum(1 for d in dlg if d["raised"]),
        "batch_rows": len(batch["rows"]),
    })
    ctx.sample({"store_history": store[3]["hist"],
                "ret": [e["ret"] for e in store[3]["events"]]})
    ctx.sample({"setup_script": dlg[5]["script"],
                "transcript": dlg[5]["transcript"][:12],
                "fit_ok": dlg[5]["fit_ok"]})
    ctx.sample({"statistics_rows": batch["rows"][:2]})
    ctx.assumptions += [
        "every store operation goes through a NEW Profile object on the same "
        "file; the stored file is read back with json",
        "which setup answers are acceptable is declared from the statement "
        "(valid preprocessing order incl. tip position, 'absolute'/'relative "
        "cp', true/false, shipped training set)",
        "batch acceptance is observed with fit_data on one recorded curve",
    ]


def replay(ctx, obj):
    world = build_world()
    wpath = ctx.scratch / "profworld.json"
    wpath.write_text(json.dumps(world))
    if obj["kind"] == "dialogue":
        d = pc.run_dialogues(([obj["script"]], str(ctx.scratch)))[0]
        print(d["raised"], d["fit_ok"], d["fit_exc"], d["answers"])
        return not d["raised"] and d["fit_ok"] and all(
            a["stored_ok"] and a["reasked_ok"] for a in d["answers"])
    if obj["kind"] == "store":
        h = dict(obj["hist"], ops=[tuple(o) for o in
                                   obj["hist"]["ops"][:obj["upto"]]])
        t = pc.run_store(([h], str(ctx.scratch)))[0]
        print([(e["op"], e["out"], e["exc"], e["ret"]) for e in t["events"]])
        return all(e["out"] == "ok" for e in t["events"])
    b = pc.run_batch(str(ctx.scratch))
    print(b)
    return b["rows"] == b["expected"]
