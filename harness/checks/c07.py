"""C07 -- each preprocessing step does what its description says
(Preproc.tla footprints; relation flags computed from the data)."""
import concurrent.futures as cf
import json
import random
import warnings

import numpy as np

import vcommon
from vcommon import MachineryError

TIP = "compute_tip_position"
POC = ["deviation_from_baseline", "fit_constant_line",
       "fit_constant_polynomial", "fit_line_polynomial",
       "frechet_direct_path", "gradient_zero_crossing"]
OWES = {
    "compute_tip_position": ["tip_is_height_plus_force_over_k"],
    "correct_force_offset": ["change_is_constant", "baseline_mean_zero"],
    "correct_tip_offset": ["change_is_constant", "zero_at_contact_index"],
    "correct_force_slope": ["outside_region_untouched",
                            "change_is_linear_in_region",
                            "no_jump_at_border", "trend_removed"],
    "correct_split_approach_retract": ["single_switch",
                                       "switch_at_farthest_point"],
    "smooth_height": ["strictly_monotonic_per_segment"],
}
ALLFLAGS = sorted({f for v in OWES.values() for f in v})


def make(recipe):
    import synth
    if recipe["kind"] == "rec":
        return synth.load_recorded(recipe["file"])
    return synth.make_curve(
        n_app=recipe["n_app"], n_ret=recipe["n_ret"],
        model_key=recipe["model"], noise=recipe["noise"],
        tilt=recipe["tilt"], drift=recipe["drift"], lag=recipe["lag"],
        seed=recipe["seed"], baseline=recipe.get("baseline", 2e-10),
        z0=recipe.get("z0", 3e-6), turn=recipe.get("turn", "linear"),
        adhesion=recipe.get("adhesion", 0.))


def cols(idnt):
    return {c: np.array(idnt[c], copy=True) for c in idnt.columns}


def run_case(case):
    from nanite import poc, preproc
    recipe, prefix, step, opts = case
    rec = {"step": step, "raised": "", "n_before": 0, "n_after": 0,
           "changed": ["_"], "lost": ["_"], "created": ["_"],
           "flags": {f: True for f in ALLFLAGS}, "case": case}
    try:
        a = make(recipe)
        b = make(recipe)
        with warnings.catch_warnings():
            warnings.simplefilter("ignore")
            a.apply_preprocessing(list(prefix), dict(opts))
            b.apply_preprocessing(list(prefix) + [step], dict(opts))
        ca, cb = cols(a), cols(b)
        rec["n_before"], rec["n_after"] = len(a), len(b)
        rec["lost"] += [c for c in ca if c not in cb]
        rec["created"] += [c for c in cb if c not in ca]
        rec["changed"] += [c for c in ca if c in cb and not (
            ca[c].shape == cb[c].shape
            and np.array_equal(ca[c], cb[c], equal_nan=True))]
        rec["changed"] += [c for c in cb if c not in ca]
        fl = rec["flags"]
        o = opts.get(step, {})
        k = a.metadata["spring constant"]
        if step == TIP:
            want = ca["height (measured)"] + ca["force"] / k
            fl["tip_is_height_plus_force_over_k"] = bool(
                "tip position" in cb and np.array_equal(cb["tip position"],
                                                        want))
        elif step == "correct_force_offset":
            d = ca["force"] - cb["force"]
            scale = float(np.max(np.abs(ca["force"]))) or 1.
            fl["change_is_constant"] = bool(np.ptp(d) <= 1e-12 * scale)
            with warnings.catch_warnings():
                warnings.simplefilter("ignore")
                idp = poc.compute_poc(np.array(ca["force"], copy=True),
                                      "deviation_from_baseline")
            if idp:
                fl["baseline_mean_zero"] = bool(
                    abs(np.mean(cb["force"][:idp])) <= 1e-12 * scale)
            else:
                fl["baseline_mean_zero"] = bool(cb["force"][0] == 0)
        elif step == "correct_tip_offset":
            d = ca["tip position"] - cb["tip position"]
            scale = float(np.max(np.abs(ca["tip position"]))) or 1.
            fl["change_is_constant"] = bool(np.ptp(d) <= 1e-12 * scale)
            with warnings.catch_warnings():
                warnings.simplefilter("ignore")
                cpid = poc.compute_poc(
                    np.array(ca["force"], copy=True),
                    o.get("method", "deviation_from_baseline"))
            fl["zero_at_contact_index"] = bool(
                cb["tip position"][cpid] == 0)
        elif step == "correct_force_slope":
            region = o.get("region", "baseline")
            strategy = o.get("strategy", "shift")
            tipc, force = ca["tip position"], ca["force"]
            absc = tipc if strategy == "shift" else ca["time"]
            idp = max(2, int(np.argmin(np.abs(tipc))))
            if region == "baseline":
                end = idp
            elif region == "approach":
                end = max(2, int(preproc.find_turning_point(
                    tip_position=tipc, force=np.copy(force),
                    contact_point_index=idp)))
            else:
                end = len(force)
            d = force - cb["force"]
            scale = float(np.max(np.abs(force))) or 1.
            fl["outside_region_untouched"] = bool(
                np.array_equal(force[end:], cb["force"][end:]))
            # the correction is a straight line in the chosen abscissa
            x = absc[:end]
            A = np.vstack([x, np.ones_like(x)]).T
            coef, *_ = np.linalg.lstsq(A, d[:end], rcond=None)
            fl["change_is_linear_in_region"] = bool(
                np.max(np.abs(A @ coef - d[:end])) <= 1e-9 * scale)
            # ... that vanishes where the region ends (no jump)
            edge = d[end - 1] if region != "all" else d[idp]
            fl["no_jump_at_border"] = bool(abs(edge) <= 1e-9 * scale)
            # ... and takes the linear baseline trend away
            xb, yb0, yb1 = absc[:idp], force[:idp], cb["force"][:idp]
            Ab = np.vstack([xb, np.ones_like(xb)]).T
            s0 = np.linalg.lstsq(Ab, yb0, rcond=None)[0][0]
            s1 = np.linalg.lstsq(Ab, yb1, rcond=None)[0][0]
            span = float(np.ptp(xb)) or 1.
            fl["trend_removed"] = bool(
                abs(s1) * span <= max(1e-6 * abs(s0) * span, 1e-9 * scale))
        elif step == "correct_split_approach_retract":
            seg = cb["segment"].astype(int)
            sw = np.flatnonzero(np.diff(seg) != 0)
            fl["single_switch"] = bool(
                len(sw) == 1 and seg[0] == 0 and seg[-1] == 1
                and set(np.unique(seg)) == {0, 1})
            with warnings.catch_warnings():
                warnings.simplefilter("ignore")
                idp = poc.poc_deviation_from_baseline(ca["force"])
            if idp and not np.isnan(idp) and len(sw) == 1:
                far = int(preproc.find_turning_point(
                    tip_position=ca["tip position"], force=ca["force"],
                    contact_point_index=idp))
                fl["switch_at_farthest_point"] = bool(sw[0] + 1 == far)
                if recipe["kind"] == "syn" and recipe["noise"] == 0:
                    # noise-free synthetic curve: the farthest point is the
                    # deepest one
                    deep = int(np.argmin(ca["tip position"]))
                    fl["switch_at_farthest_point"] &= \
                        bool(abs(sw[0] + 1 - deep) <= 1)
        elif step == "smooth_height":
            ok = True
            seg = cb["segment"].astype(int)
            for c in ("height (measured)", "height (piezo)", "tip position"):
                if c not in cb:
                    continue
                for s in (0, 1):
                    v = cb[c][seg == s]
                    if v.size > 1:
                        dv = np.diff(v)
                        ok = ok and bool(np.all(dv > 0) or np.all(dv < 0))
            fl["strictly_monotonic_per_segment"] = ok
    except BaseException as exc:
        if isinstance(exc, (KeyboardInterrupt, SystemExit)):
            raise
        import traceback
        rec["raised"] = type(exc).__name__ + ": " + str(exc)[:100]
        rec["tb"] = traceback.format_exc()[-500:]
    return rec


def cases(tier, rng):
    recipes = []
    for model in ("hertz_para", "hertz_cone", "sneddon_spher_approx",
                  "hertz_pyr3s", "power_layer_clifford_2009"):
        for noise in (0., 3e-11):
            recipes.append(dict(
                kind="syn", model=model, noise=noise,
                n_app=rng.choice([400, 900]), n_ret=rng.choice([300, 500]),
                tilt=rng.choice([0., 4e-5, -3e-5]),
                drift=rng.choice([0., 2e-10]),
                lag=rng.choice([0, 0, 6, 15]), seed=rng.randrange(999)))
    for f in ("fmt-jpk-fd_spot3-0192.jpk-force",
              "fmt-jpk-fd_single_tilted-baseline-drift-mitotic_2021-01-29"
              ".jpk-force",
              "fmt-jpk-fd_single_tilted-baseline-shift-adyp_2023-06-26"
              ".jpk-force"):
        recipes.append(dict(kind="rec", file=f, noise=1))
    out = []
    for r in recipes:
        out.append((r, [], TIP, {}))
        # (after a step that rewrote the force column)
        out.append((r, ["correct_force_offset"], TIP, {}))
        out.append((r, [TIP], "correct_force_offset", {}))
        out.append((r, [TIP, "correct_tip_offset", "correct_force_slope"],
                    "correct_force_offset", {}))
        for m in POC:
            if r["kind"] == "rec" and m.startswith("fit_") \
                    and tier == "quick":
                continue
            out.append((r, [TIP], "correct_tip_offset",
                        {"correct_tip_offset": {"method": m}}))
            # ... and on columns that an earlier step has already rewritten
            # (edited columns are handed out differently from recorded ones)
            out.append((r, [TIP, "correct_force_offset"],
                        "correct_tip_offset",
                        {"correct_tip_offset": {"method": m}}))
        for region in ("baseline", "approach", "all"):
            for strategy in ("shift", "drift"):
                out.append((r, [TIP, "correct_tip_offset"],
                            "correct_force_slope",
                            {"correct_force_slope": {"region": region,
                                                     "strategy": strategy}}))
        out.append((r, [TIP, "correct_force_offset", "correct_tip_offset"],
                    "correct_force_slope",
                    {"correct_force_slope": {"region": "approach",
                                             "strategy": "drift"}}))
        out.append((r, [TIP, "correct_force_offset"], "smooth_height", {}))
        out.append((r, [TIP], "correct_split_approach_retract", {}))
        out.append((r, [TIP, "correct_tip_offset", "correct_force_slope"],
                    "correct_split_approach_retract", {}))
        out.append((r, [], "smooth_height", {}))
        out.append((r, [TIP], "smooth_height", {}))
        out.append((r, [TIP, "correct_split_approach_retract"],
                    "smooth_height", {}))
    # sticky samples: the pull-off force exceeds the indentation force
    for adh in (1.5, 2.0, 4.0):
        for lag in (0, 8):
            r = dict(kind="syn", model="hertz_para", noise=0., n_app=600,
                     n_ret=500, tilt=0., drift=0., lag=lag, seed=2,
                     adhesion=adh)
            out.append((r, [TIP], "correct_split_approach_retract", {}))
            out.append((r, [TIP, "correct_tip_offset", "correct_force_slope"],
                        "correct_split_approach_retract", {}))
    # height smoothing on long curves whose turning point is smooth and lags
    # the segment flag: reversals of 1e-4 ... 1e-7 of the range
    for n, lag in ((3000, 12), (10000, 10), (10000, 30), (30000, 9)):
        for noise in (0., 1e-11):
            r = dict(kind="syn", model="hertz_para", noise=noise, n_app=n,
                     n_ret=n, tilt=0., drift=0., lag=lag, seed=3,
                     turn="parabolic", z0=4e-6)
            out.append((r, [], "smooth_height", {}))
            if not noise:
                # (force noise enters the tip position; where the piezo
                # hardly moves it dominates and no window can help: such
                # a curve is not well-formed for this step)
                out.append((r, [TIP], "smooth_height", {}))
    if tier == "quick":
        keep = [c for c in out if c[0]["kind"] == "rec"
                or c[0]["model"] in ("hertz_para", "hertz_cone")]
        out = keep
    return out


def run(ctx):
    rng = random.Random(ctx.seed * 37 + 8)
    res = vcommon.tlc("PreprocMC.tla", "PreprocMC.cfg", ctx.scratch)
    vcommon.need_ok(res, "Preproc design")
    vcommon.need_actions(res, ["Apply"], "Preproc design")
    ctx.add_tlc(res, "PreprocMC.tla (pipelines of <= 4 steps over column "
                     "versions: frame condition)")
    cs = cases(ctx.tier, rng)
    with cf.ProcessPoolExecutor(max_workers=min(vcommon.NCPU, 16)) as pool:
        recs = list(pool.map(run_case, cs, chunksize=2))
    path = ctx.scratch / "c07_batch.json"
    path.write_text(json.dumps(vcommon.jsonable({"records": [
        {k: v for k, v in r.items() if k not in ("case", "tb")}
        for r in recs]})))
    t = vcommon.tlc("PreprocTrace.tla", "PreprocTrace.cfg", ctx.scratch,
                    env={"TRACE_FILE": path}, workers=1, coverage=False,
                    timeout=3000)
    if t.violated or t.error:
        raise MachineryError("PreprocTrace failed:\n"
                             + vcommon.err_excerpt(t.stdout))
    ctx.tlc_states += t.distinct
    ctx.tlc_transitions += len(recs)
    ctx.traces = len(recs)
    for obj in t.printed():
        r = recs[obj["rec"] - 1]
        recipe, prefix, step, opts = r["case"]
        bad = [f for f in OWES[step] if not r["flags"][f]]
        for cl in obj["failed"]:
            ctx.report(f"{cl}|{step}|{opts.get(step, {})}|{recipe}|"
                       f"{bad}",
                       f"{cl} fails for step {step} {opts.get(step, {})} "
                       f"after {prefix} on {recipe}: changed="
                       f"{r['changed'][1:]} created={r['created'][1:]} "
                       f"lost={r['lost'][1:]} n={r['n_before']}->"
                       f"{r['n_after']} relations not met={bad} "
                       f"{r['raised']} {r.get('tb', '')}",
                       {"kind": "step", "case": r["case"]})
    per = {}
    for r in recs:
        per[r["step"]] = per.get(r["step"], 0) + 1
    ctx.coverage.update({"step_applications": len(recs), "per_step": per})
    ctx.sample({"case": recs[0]["case"], "changed": recs[0]["changed"][1:]})
    ctx.sample({"case": recs[-1]["case"], "changed": recs[-1]["changed"][1:],
                "flags": {f: recs[-1]["flags"][f]
                          for f in OWES[recs[-1]["step"]]}})
    ctx.assumptions += [
        "the effect of a step is the difference between a fresh curve "
        "preprocessed with the prefix and one with prefix + step",
        "relation flags use explicit tolerances: constant / linear change "
        "1e-12 / 1e-9 of the column range, baseline mean 1e-12 of max|F|, "
        "remaining baseline slope <= 1e-6 of the original one",
        "quality of the estimated contact index itself is C08",
    ]


def replay(ctx, obj):
    c = obj["case"]
    r = run_case((c[0], c[1], c[2], c[3]))
    print({k: v for k, v in r.items() if k != "case"})
    return False
