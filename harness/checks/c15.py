"""C15 -- training sets load clean, aligned, and survive export
(TrainingSet.tla, case-exhaustive)."""
import concurrent.futures as cf
import itertools
import json
import multiprocessing as mp
import random

import trainingset_check as tc
import vcommon
from vcommon import MachineryError

ALL_ON = (True, True, True)
FLAGS = list(itertools.product([True, False], repeat=3))


def build_cases(tier, rng):
    cases = []
    full3 = list(tc.case_space(3, tier, rng, False))
    if tier == "quick":
        special = [c for c in full3
                   if sum(t in ("nan", "inf", "-inf")
                          for row in c[0] for t in row) >= 2]
        picked = rng.sample(special, 6000) + rng.sample(full3, 3000)
    else:
        picked = full3
    for m, y in picked:
        cases.append({"m": m, "y": y, "flags": ALL_ON,
                      "order": rng.choice([(0, 1), (1, 0)])})
    # the other flag combinations on a sample
    for m, y in rng.sample(full3, 2500 if tier == "quick" else 40000):
        cases.append({"m": m, "y": y, "flags": rng.choice(FLAGS[1:]),
                      "order": rng.choice([(0, 1), (1, 0)])})
    # other sizes: 2 and 4 rows (1 row: a single sample)
    for nrows, k in ((2, 1500), (4, 1500), (1, 72)):
        sp = list(tc.case_space(nrows, tier, rng, False)) if nrows <= 2 \
            else None
        if sp is None:
            cells = list(itertools.product(tc.ALPHA, repeat=2))
            sp = [(tuple(rng.choice(cells) for _ in range(nrows)),
                   tuple(rng.choice([0, 4]) for _ in range(nrows)))
                  for _ in range(k)]
        for m, y in (sp if len(sp) <= k else rng.sample(sp, k)):
            cases.append({"m": m, "y": y, "flags": ALL_ON,
                          "order": (0, 1)})
    return cases, len(full3)


def run(ctx):
    rng = random.Random(ctx.seed * 3 + 11)
    res = vcommon.tlc("TrainingSetMC.tla", "TrainingSetMC.cfg", ctx.scratch)
    vcommon.need_ok(res, "TrainingSet design")
    ctx.add_tlc(res, "TrainingSetMC.tla (all 2x2 matrices over 5 cell "
                     "kinds x responses: stage composition invariants)")
    cases, nfull = build_cases(ctx.tier, rng)
    nproc = min(vcommon.NCPU, 16)
    with cf.ProcessPoolExecutor(max_workers=nproc) as pool:
        parts = list(pool.map(
            tc.run_cases, [(cases[i::nproc], str(ctx.scratch))
                           for i in range(nproc)]))
    # restore the original order
    recs = [None] * len(cases)
    for i, part in enumerate(parts):
        recs[i::nproc] = part
    weights = tc.weight_cases()
    export = tc.export_case(ctx.scratch)
    failed = {}
    wfailed, efailed = {}, []
    states = 0
    batch = 30000
    for b0 in range(0, len(recs), batch):
        path = ctx.scratch / f"c15_batch_{b0}.json"
        path.write_text(json.dumps({"cases": recs[b0:b0 + batch],
                                    "weights": weights if b0 == 0
                                    else weights[:1],
                                    "export": export}))
        tres = vcommon.tlc("TrainingSetTrace.tla", "TrainingSetTrace.cfg",
                           ctx.scratch, env={"TRACE_FILE": path}, workers=1,
                           coverage=False, timeout=3600,
                           jvm_opts=["-Xmx10g"])
        path.unlink()
        if tres.violated or tres.error:
            raise MachineryError("TrainingSetTrace failed:\n"
                                 + vcommon.err_excerpt(tres.stdout))
        states += tres.distinct
        for obj in tres.printed():
            if "case" in obj:
                failed[b0 + obj["case"] - 1] = sorted(obj["failed"])
            elif "weight" in obj and b0 == 0:
                wfailed[obj["weight"] - 1] = sorted(obj["failed"])
            elif "export" in obj and b0 == 0:
                efailed = sorted(obj["failed"])
    ctx.tlc_states += states
    ctx.tlc_transitions += len(recs) + len(weights) + 1
    ctx.traces = len(recs) + len(weights) + 1
    for i, clauses in sorted(failed.items()):
        c, r = cases[i], recs[i]
        for cl in clauses:
            ctx.report(f"{cl}|{c['m']}|{c['y']}|{c['flags']}",
                       f"{cl} fails for training matrix rows={c['m']} "
                       f"(columns {tc.NAMES}), responses={c['y']}, flags "
                       f"(impute, remove, replace)={c['flags']}: loader "
                       f"returned {r['nout']} rows X={r['outX']} "
                       f"y={r['outy']} {r['raised']}",
                       {"kind": "case", "case": c})
    for i, clauses in sorted(wfailed.items()):
        for cl in clauses:
            ctx.report(f"{cl}|{weights[i]['y']}|{weights[i].get('dtype')}",
                       f"{cl} fails for responses {weights[i]['y']}: "
                       f"weights {weights[i]['w']} {weights[i]['raised']}",
                       {"kind": "weight", "y": weights[i]["y"]})
    for cl in efailed:
        ctx.report(f"{cl}|export", f"{cl}: {export}", {"kind": "export"})
    ctx.coverage.update({
        "cases": len(recs), "case_space_3x2": nfull,
        "exhaustive": ctx.tier == "thorough",
        "weight_cases": len(weights),
        "cases_with_unspecified_cells": sum(
            1 for r in recs if r["raised"]),
    })
    ctx.sample({"case": cases[0], "real": {k: recs[0][k] for k in
                                           ("nout", "outX", "outy")}})
    ctx.sample({"case": cases[-1], "real": {k: recs[-1][k] for k in
                                            ("nout", "outX", "outy",
                                             "raised")}})
    ctx.sample({"weights": weights[20]})
    ctx.assumptions += [
        "real outputs are mapped to exact rationals (denominator <= 1000, "
        "must match within 1e-12 relative) before TLC compares them with "
        "the rational expectation",
        "a column holding an infinity but no finite value is unspecified "
        "by the statement: any outcome (also an exception) is accepted",
    ]


def replay(ctx, obj):
    if obj["kind"] == "case":
        c = obj["case"]
        c = {"m": tuple(tuple(r) for r in c["m"]), "y": tuple(c["y"]),
             "flags": tuple(c["flags"]), "order": tuple(c["order"])}
        r = tc.run_cases(([c], str(ctx.scratch)))
        print(r)
        path = ctx.scratch / "replay.json"
        path.write_text(json.dumps({"cases": r, "weights":
                                    tc.weight_cases()[:1],
                                    "export": {"raised": "",
                                               "features_ok": True,
                                               "responses_ok": True,
                                               "order_ok": True}}))
        t = vcommon.tlc("TrainingSetTrace.tla", "TrainingSetTrace.cfg",
                        ctx.scratch, env={"TRACE_FILE": path}, workers=1,
                        coverage=False)
        bad = [o for o in t.printed() if "case" in o]
        print(bad)
        return not bad
    return False
