"""C02 -- shipped models evaluate their published formulas (Formulas.tla:
documented closed forms on an exact rational lattice, enumerated by TLC)."""
import math
import warnings

import numpy as np

import vcommon
from vcommon import MachineryError

U = 2.0 ** -20          # length unit of the lattice (about 0.95 um)
CPS = [-1.0, 0.0, 2.0]          # contact point, in units of U
BASES = [-1e-9, 0.0, 2e-9]      # baseline [N]
RTOL = 1e-12


def rat(q):
    return q[0] / q[1]


def point_inputs(p):
    """model parameters and depth for one lattice point"""
    m = p["model"]
    nu = rat(p["nu"])
    E = float(p["E"])
    R = p["r"] ** 2 * U
    if m in ("hertz_cone", "hertz_pyr3s"):
        depth = p["d"] * U
        par = dict(E=E, alpha=float(p["alpha"]), nu=nu)
        factor = math.tan(p["alpha"] * math.pi / 180) * U ** 2
        if m == "hertz_cone":
            factor /= math.pi
    elif m == "power_layer_clifford_2009":
        depth = p["d"] ** 2 * U
        ratio = p["ratio"]
        s = rat(p["s"])
        es, el = E, E * ratio[0] / ratio[1]
        pw = ratio[2] / ratio[3]            # (E_L/E_S)^(2/3), rational
        nul = rat(p["nuL"])
        t = math.sqrt(R * depth) * pw * (1 - .22 * nu ** 2) \
            / (1 - 1.92 * nul ** 2) / s ** 2
        par = dict(E_S=es, E_L=el, R=R, nu_S=nu, nu_L=nul, t=t)
        factor = U ** 2
    else:
        depth = p["d"] ** 2 * U
        par = dict(E=E, R=R, nu=nu)
        factor = U ** 2
    series = 1.0
    if m == "sneddon_spher_approx":
        series = sum(rat(t["c"]) * rat(t["q"]) for t in p["series"])
    expected = rat(p["value"]) * factor * series
    return par, depth, expected


def run(ctx):
    from nanite import model
    import lmfit
    res = vcommon.tlc("Formulas.tla", "Formulas.cfg", ctx.scratch)
    vcommon.need_ok(res, "Formulas lattice")
    points = [o for o in res.printed() if "value" in o]
    if len(points) != res.distinct:
        raise MachineryError(
            f"TLC emitted {len(points)} lattice points for {res.distinct} "
            "states")
    ctx.add_tlc(res, "Formulas.tla lattice (expected values emitted; "
                     "ZeroAtContact, Monotone, LinearInE, SeriesBounded)")
    quick = ctx.tier == "quick"
    import random
    rng = random.Random(ctx.seed)
    # a user's model file whose function happens to carry the name of a
    # shipped one (a copied template) with another formula is loaded, not
    # registered: the shipped models keep evaluating THEIR formulas
    try:
        tdir = ctx.scratch / "foreign_models"
        tdir.mkdir(exist_ok=True)
        import registry_check as rc
        for i, fname in enumerate(("hertz_paraboloidal", "hertz_conical",
                                   "hertz_three_sided_pyramid",
                                   "hertz_sneddon_spherical_approx",
                                   "power_layer_clifford_2009")):
            src = (rc.MODEL_SRC % {"key": f"verif_foreign{i}", "extra": ""})
            src = src.replace("def model_func(", f"def {fname}(").replace(
                "model_doc = model_func.__doc__",
                f"model_func = {fname}\nmodel_doc = model_func.__doc__"
            ).replace("aa = 4/3 * E", "aa = 2 * 4/3 * E")
            f = tdir / f"foreign_{i}.py"
            f.write_text(src)
            with warnings.catch_warnings():
                warnings.simplefilter("ignore")
                model.load_model_from_file(f, register=False)
        ctx.coverage["foreign_same_named_functions_loaded"] = 5
    except BaseException as exc:
        if isinstance(exc, (KeyboardInterrupt, SystemExit)):
            raise
        ctx.note(f"foreign model files could not be loaded: {exc!r}")
    nval = 0
    worst = 0.0
    per_model = {}
    for p in points:
        m = p["model"]
        md = model.models_available[m]
        par, depth, expected = point_inputs(p)
        combos = [(c, b) for c in CPS for b in BASES]
        if quick:
            combos = rng.sample(combos, 3)
        for cpu, b in combos:
            cp = cpu * U
            # approach-ordered abscissa: far away ... at contact ... deep
            delta = np.array([cp + 3 * U, cp + U, cp, cp - depth],
                             dtype=float)
            want = np.array([b, b, b, expected + b])
            pfull = dict(par, contact_point=cp, baseline=b)
            params = md.get_parameter_defaults()
            for k, v in pfull.items():
                params[k].set(value=v, min=-np.inf, max=np.inf)
            d0 = delta.copy()
            try:
                with warnings.catch_warnings():
                    warnings.simplefilter("ignore")
                    got_func = md.module.model_func(delta.copy(), **pfull)
                    got_wrap = np.array(md.model(params, delta), copy=True)
                    # the same array object, shifted in place, evaluated again
                    # right away (a model must be a function of the VALUES)
                    delta -= U / 2
                    got_shift = md.model(params, delta)
                    want_shift = md.module.model_func(delta.copy(), **pfull)
                    got_rev = md.model(params, d0[::-1].copy())[::-1]
                    # the formulas are point-wise: an abscissa that goes in and
                    # out of contact (approach and retract in one array, a noisy
                    # tip position) gets the same value at every point
                    dz = np.array([cp + 3 * U, cp - depth, cp + U, cp - depth,
                                   cp, cp + 3 * U], dtype=float)
                    got_zz = np.asarray(md.model(params, dz.copy()),
                                        float)[[0, 2, 4, 1]]
                    got_zzf = np.asarray(md.module.model_func(dz.copy(),
                                                              **pfull),
                                         float)[[0, 2, 4, 3]]
                    # no sample in contact at all / a single one: the baseline
                    doff = np.array([cp + 3 * U, cp + U, cp], dtype=float)
                    got_off = np.asarray(md.model(params, doff.copy()), float)
                    got_off1 = np.asarray(md.model(params, doff[:1].copy()),
                                          float)
                    got_offf = np.asarray(md.module.model_func(doff.copy(),
                                                               **pfull), float)
                    for nm, g in (("model_off_contact", got_off),
                                  ("model_single_off_contact", got_off1),
                                  ("model_func_off_contact", got_offf)):
                        if not np.array_equal(g, np.full(g.shape, b)):
                            ctx.report(
                                f"C02_BaselineExact|{m}|{nm}|cp={cpu}|b={b}",
                                f"{m}.{nm}: with no sample in contact the force "
                                f"is {g} instead of the baseline {b} exactly "
                                f"(point {fmt(p)})",
                                {"kind": "point", "point": p, "cp": cpu, "b": b})
            except (KeyboardInterrupt, SystemExit):
                raise
            except BaseException as exc:
                ctx.report(f"C02_FormulaValue|{m}|raised|{type(exc).__name__}",
                           f"{m}: evaluating the model at {fmt(p)} raised "
                           f"{type(exc).__name__}: {str(exc)[:120]}",
                           {"kind": "point", "point": p, "cp": cpu, "b": b})
                continue
            nval += 1
            per_model[m] = per_model.get(m, 0) + 1
            for name, got, ref in (("model_func", got_func, want),
                                   ("model", got_wrap, want),
                                   ("model_reversed", got_rev, want),
                                   ("model_in_and_out", got_zz, want),
                                   ("model_func_in_and_out", got_zzf,
                                    want)):
                got = np.asarray(got, float)
                # not in contact: the baseline EXACTLY
                if not np.array_equal(got[:3], ref[:3]):
                    ctx.report(
                        f"C02_BaselineExact|{m}|{name}|cp={cpu}|b={b}",
                        f"{m}.{name}: out of contact / at contact the force "
                        f"is {got[:3]} instead of the baseline {b} exactly "
                        f"(point {fmt(p)})",
                        {"kind": "point", "point": p, "cp": cpu, "b": b})
                scale = max(abs(ref[3]), abs(b), 1e-300)
                err = abs(got[3] - ref[3]) / scale
                worst = max(worst, err)
                if not err <= RTOL:
                    ctx.report(
                        f"C02_FormulaValue|{m}|{name}|{fmt(p)}",
                        f"{m}.{name} deviates from the documented formula "
                        f"by {err:.3e} (relative) at {fmt(p)}, contact "
                        f"point {cpu} u, baseline {b}: got {got[3]!r}, "
                        f"documented {ref[3]!r}",
                        {"kind": "point", "point": p, "cp": cpu, "b": b})
            if not np.array_equal(np.asarray(got_shift), want_shift):
                ctx.report(f"C02_Stateless|{m}",
                           f"{m}.model returns different forces for the same "
                           f"array object after an in-place shift than "
                           f"model_func for an equal-valued array "
                           f"({fmt(p)})",
                           {"kind": "point", "point": p, "cp": cpu, "b": b})
    # documented accuracy of the truncated series w.r.t. the exact
    # (implicit) Sneddon solution, if the reference model is installed
    exact = model.models_available.get("sneddon_spher")
    checked_exact = 0
    if exact is not None:
        approx = model.models_available["sneddon_spher_approx"]
        for R in (5e-6, 10e-6, 40e-6):
            delta = np.linspace(0, -R, 60)
            pa = approx.get_parameter_defaults()
            pe = exact.get_parameter_defaults()
            for pp in (pa, pe):
                pp["R"].set(value=R)
                pp["E"].set(value=1234.)
            with warnings.catch_warnings():
                warnings.simplefilter("ignore")
                fa = approx.model(pa, delta)
                fe = exact.model(pe, delta)
            checked_exact += 1
            dev = float(np.max(np.abs(fa - fe)) / np.max(np.abs(fe)))
            if not dev <= 1e-4:
                ctx.report(f"C02_SeriesAccuracy|R={R}",
                           f"truncated sphere series deviates {dev:.2e} of "
                           f"the maximum force from the exact Sneddon model "
                           f"for depths up to R={R}",
                           {"kind": "series", "R": R})
    ctx.traces = nval
    ctx.coverage.update({
        "lattice_points": len(points), "evaluations": nval,
        "points_per_model": per_model,
        "max_relative_deviation": worst, "tolerance": RTOL,
        "exact_sneddon_reference_used": exact is not None,
        "exact_series_comparisons": checked_exact,
    })
    ctx.sample({"point": points[0], "inputs": str(point_inputs(points[0]))})
    ctx.sample({"point": points[-1],
                "inputs": str(point_inputs(points[-1]))})
    ctx.assumptions += [
        "the lattice value emitted by TLC (exact rational) is multiplied in "
        "floating point by u^2, by tan(alpha)[/pi] for cone/pyramid and by "
        "the term-wise series sum for the truncated sphere (<= 8 roundings, "
        "tolerance 1e-12 relative)",
        "the documented pyramid coefficient is read as 0.8887 (Bilodeau "
        "1992)",
        "the 1e-4 clause is checked against the separately installed "
        "nanite_model_sneddon_spher reference model when importable",
    ]


def fmt(p):
    return (f"E={p['E']},nu={p['nu']},nuL={p.get('nuL')},r={p['r']},d={p['d']},"
            f"alpha={p['alpha']},ratio={p['ratio'][:2]},s={p['s']}")


def replay(ctx, obj):
    print("re-run the check; points are deterministic:", obj)
    return False
