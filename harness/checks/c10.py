"""C10 -- arguments are taken by value (Mutate* actions of Curve.tla, clauses
C10_* on every recorded call, plus the stateless entry points)."""
import copy

import numpy as np

import curve_check
import world


def pure_entry_points(ctx):
    """Stateless APIs: the argument must be unchanged after the call and a
    second call with the same (possibly edited in place) object must equal
    a call with a fresh equal-valued object.  Recorded as trace events of
    kind 'pure' and judged by the same C10_ArgsUnchanged clause."""
    import warnings
    from nanite import poc, model, preproc
    from nanite.rate import IndentationRater
    import curve_exec
    import synth
    events = []

    def record(name, fn, args):
        snaps = [curve_exec.snapshot_arg(a) for a in args]
        ev = {"name": name, "argsame": True, "byvalue": True, "exc": ""}
        try:
            with warnings.catch_warnings():
                warnings.simplefilter("ignore")
                r1 = fn(*args)
                ev["argsame"] = all(curve_exec.snapshot_arg(a) == s
                                    for a, s in zip(args, snaps))
                r2 = fn(*copy.deepcopy(list(args)))
            ev["byvalue"] = curve_exec.snapshot_arg(r1) == \
                curve_exec.snapshot_arg(r2) if not isinstance(r1, tuple) \
                else repr(r1)[:200] == repr(r2)[:200]
        except BaseException as exc:   # noqa
            ev["exc"] = type(exc).__name__
        events.append(ev)

    idnt = synth.make_curve(n_app=400, noise=3e-11, seed=11)
    idnt.apply_preprocessing(world.PIPES["P1"][0])
    force = np.array(idnt["force"], copy=True)
    for m in poc.POC_METHODS:
        record(f"compute_poc:{m.identifier}",
               lambda f, mm=m.identifier: poc.compute_poc(f, mm), [force])
        record(f"compute_poc_details:{m.identifier}",
               lambda f, mm=m.identifier: poc.compute_poc(
                   f, mm, ret_details=True)[0], [force])
    x = np.array(idnt["tip position"][idnt["segment"] == 0], copy=True)
    y = np.array(idnt["force"][idnt["segment"] == 0], copy=True)
    for key, md in model.models_available.items():
        p = md.get_parameter_defaults()
        record(f"model:{key}", md.model, [p, x])
        record(f"model_rev:{key}", md.model, [p, x[::-1].copy()])
        record(f"residual:{key}", md.residual, [p, x, y, 5e-7])
        record(f"model_func:{key}",
               lambda d, pp: md.module.model_func(d, **pp.valuesdict()),
               [x, p])
    steps = list(world.PIPES["P2"][0])[::-1]
    record("autosort", preproc.autosort, [steps])
    record("check_order", lambda s: preproc.check_order(s),
           [list(world.PIPES["P2"][0])])
    X, yy = IndentationRater.load_training_set()
    record("compute_sample_weight", IndentationRater.compute_sample_weight,
           [X, yy])
    # the rater's constructor with every array argument it takes
    from nanite.rate.regressors import reg_dict
    Xs, ys = X[::6].copy(), yy[::6].copy()
    sw = np.linspace(1., 3., ys.size)

    def make_rater(Xa, ya, w):
        cls_, kw = reg_dict["Extra Trees"]
        r = IndentationRater(regressor=cls_(**dict(kw)),
                             training_set=(Xa, ya), sample_weight=w)
        return float(r.rate(datasets=idnt)[0]) if False else 0.
    record("IndentationRater(sample_weight)", make_rater, [Xs, ys, sw])
    # legacy / unusual keys in the method keyword dictionary
    for mk in ({"maxfev": 300}, {"maxiter": 50}, {"max_nfev": 300,
                                                   "ftol": 1e-9}):
        def fitkw(d, meth="leastsq"):
            j = synth.make_curve(n_app=200, noise=3e-11, seed=12)
            j.apply_preprocessing(world.PIPES["P1"][0])
            try:
                j.fit_model(model_key="hertz_para", method_kws=d)
            except BaseException as exc:
                if isinstance(exc, (KeyboardInterrupt, SystemExit)):
                    raise
            return 0.
        record(f"fit_model(method_kws={sorted(mk)})", fitkw, [mk])
    names = ["feat_con_idt_sum", "feat_con_apr_sum", "feat_bin_size"]
    record("get_feature_names",
           lambda n: IndentationRater.get_feature_names(names=n), [names])
    # returned objects must not be views of arguments / of library state
    def no_alias(name, ret_arrays, owners):
        ev = {"name": name, "argsame": True, "exc": "",
              "byvalue": not any(np.shares_memory(a, b)
                                 for a in ret_arrays for b in owners)}
        events.append(ev)

    def arrays_in(obj):
        out = []
        if isinstance(obj, np.ndarray):
            out.append(obj)
        elif isinstance(obj, dict):
            for v in obj.values():
                out += arrays_in(v)
        elif isinstance(obj, (list, tuple)):
            for v in obj:
                out += arrays_in(v)
        return out
    for m in poc.POC_METHODS:
        f2 = np.array(force, copy=True)
        with warnings.catch_warnings():
            warnings.simplefilter("ignore")
            _cp, det = poc.compute_poc(f2, m.identifier, ret_details=True)
        no_alias(f"compute_poc_details_alias:{m.identifier}",
                 arrays_in(det), [f2])
    for pid in ("P1", "P1b", "P2", "P4"):
        i2 = synth.make_curve(n_app=400, noise=3e-11, seed=11)
        steps, opts = world.pipe_value(pid)
        with warnings.catch_warnings():
            warnings.simplefilter("ignore")
            det = i2.apply_preprocessing(steps, opts, ret_details=True)
        cols = [np.asarray(i2[c]) for c in i2.columns] + \
            [np.asarray(v) for v in i2._raw_data.values()]
        no_alias(f"apply_preprocessing_details_alias:{pid}",
                 arrays_in(det), cols)
    p0 = idnt.get_initial_fit_parameters(model_key="hertz_para")
    p1 = idnt.get_initial_fit_parameters()
    events.append({"name": "get_initial_fit_parameters_alias",
                   "argsame": True, "exc": "", "byvalue": p0 is not p1})
    idnt.fit_model(model_key="hertz_para")
    record("compute_features",
           lambda n: IndentationRater.compute_features(idnt, names=n),
           [names])
    return events


def training_set_edits():
    """fit, then rate with a caller-owned training set, edit it in place
    (whole response vector / interior rows only / files of the directory),
    rate again, and back"""
    import itertools
    fitted = [{"op": "apply", "pipe": "P1"},
              {"op": "fit", "kw": {"model_key": "m_para"}}]
    out = []
    for grp in (["R_et_memA", "R_et_memB", "R_et_memC"],
                ["R_rf_dirA", "R_rf_dirB"]):
        for a, b in itertools.permutations(grp, 2):
            out.append(list(fitted) + [{"op": "rate", "rater": a},
                                       {"op": "rate", "rater": b},
                                       {"op": "rate", "rater": a}])
    out.append(list(fitted) + [{"op": "rate", "rater": "R_svr_memA"}])
    # two fits whose initial parameters differ in exactly one attribute
    # (a bound, or a constraint expression that keeps the initial value)
    qs = ["q_para_4k", "q_para_exprR", "q_para_min", "q_para_max"]
    for a, b in itertools.permutations(qs, 2):
        out.append([{"op": "apply", "pipe": "P1"},
                    {"op": "fit", "kw": {"params_initial": a}},
                    {"op": "fit", "kw": {"params_initial": b}}])
    return out


def run(ctx):
    quick = ctx.tier == "quick"
    sl = {k: world.SLICES[k] for k in ("alias", "alias2", "pre", "pre2", "bounds")}
    curve_check.run_engine(
        ctx, "C10_", sl,
        n_random=120 if quick else 600, rand_len=30,
        rand_weights=dict(mutate_pi=4, mutate_pl=3, fit=5, getinit=2,
                          rate=0.3, scan=0.1, alias_pl=3),
        walk_limit=250 if quick else 600,
        curves=("syn1", "rec1", "syn2"), scripted=training_set_edits())
    if not quick:
        curve_check.repo_test_traces(ctx, "C10_")
    pure = pure_entry_points(ctx)
    for ev in pure:
        if ev["exc"]:
            continue
        if not ev["argsame"]:
            ctx.report(f"C10_ArgsUnchanged|pure:{ev['name']}",
                       f"{ev['name']} modified its argument",
                       {"kind": "pure", "name": ev["name"]})
        if not ev["byvalue"]:
            ctx.report(f"C10_ByValue|pure:{ev['name']}",
                       f"{ev['name']}: same object vs deep copy differ",
                       {"kind": "pure", "name": ev["name"]})
    ctx.coverage["pure_entry_points"] = len(pure)
    ctx.coverage["pure_entry_points_raising"] = \
        [e["name"] for e in pure if e["exc"]]
    ctx.assumptions += [
        "argument snapshots: lists/dicts structurally with container types, "
        "lmfit.Parameters by (name,value,min,max,vary,expr), ndarrays by "
        "dtype/shape/bytes",
        "in-place edits of a Parameters object are limited to objects with "
        "the same parameter names (value/min/max/vary)",
    ]


def replay(ctx, obj):
    if obj.get("kind") == "pure":
        ev = [e for e in pure_entry_points(ctx) if e["name"] == obj["name"]]
        print(ev)
        return all(e["argsame"] and e["byvalue"] for e in ev)
    return curve_check.replay(ctx, obj, "C10_")
