"""C09 -- rate_quality is total, deterministic, in range and tied to the
current fit (Rate action of Curve.tla over every reachable curve state)."""
import curve_check
import world


def run(ctx):
    quick = ctx.tier == "quick"
    sl = {"rate": world.SLICES["rate"], "rate2": world.SLICES["rate2"],
          "rate3": world.SLICES["rate3"],
          "model": world.SLICES["model"], "pre": world.SLICES["pre"]}
    curve_check.run_engine(
        ctx, "C09_", sl,
        n_random=60 if quick else 600, rand_len=24,
        rand_weights=dict(rate=6, fit=4, set=2, apply=2, scan=0.05),
        walk_limit=None if not quick else 150,
        curves=("syn1", "syn2", "rec1", "syn3"))
    ctx.assumptions += [
        "expected value = standalone IndentationRater (assembled from the "
        "public pieces: load_training_set, regressor table, constructor) "
        ".rate(datasets=fresh fitted copy), compared bit-for-bit",
        "caller-owned training sets (an (X, y) tuple, a user directory) are "
        "edited in place between ratings (variants A/B of slice rate3)",
        "cross-process determinism is covered by comparing values computed "
        "in different worker processes (content-addressed ids)",
        "[0,10] is required for the tree regressors of the catalogue only",
    ]


def replay(ctx, obj):
    return curve_check.replay(ctx, obj, "C09_")
