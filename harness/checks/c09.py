"""C09 -- rate_quality is total, deterministic, in range and tied to the
current fit (Rate action of Curve.tla over every reachable curve state)."""
import curve_check
import world


def state_rater_product():
    """every curve state the statement names x every rater of the
    catalogue: never preprocessed, preprocessed only, fitted, attempted but
    unsuccessful (no / too few points in the interval, a failing later
    pass), fitted then edited, refused settings"""
    states = {
        "fresh": [],
        "preprocessed": [{"op": "apply", "pipe": "P1"}],
        "fitted": [{"op": "apply", "pipe": "P1"},
                   {"op": "fit", "kw": {"model_key": "m_para"}}],
        "nopoints": [{"op": "apply", "pipe": "P1"},
                     {"op": "fit", "kw": {"model_key": "m_para",
                                          "range_x": "r_adv1"}}],
        "relfail": [{"op": "apply", "pipe": "P1"},
                    {"op": "fit", "kw": {"model_key": "m_para",
                                         "range_type": "t_rel",
                                         "range_x": "r_tiny"}}],
        "edited": [{"op": "apply", "pipe": "P1"},
                   {"op": "fit", "kw": {"model_key": "m_para"}},
                   {"op": "set", "key": "weight_cp", "val": "w_half"}],
        "refused": [{"op": "apply", "pipe": "P1"},
                    {"op": "fit", "kw": {"model_key": "m_bad"}}],
        "notip": [{"op": "fit", "kw": {"model_key": "m_para"}}],
    }
    out = []
    for sname, pre in states.items():
        for rid in world.RATERS:
            out.append(list(pre) + [{"op": "rate", "rater": rid},
                                    {"op": "rate", "rater": rid}])
    # ratings of a curve WITHOUT a fit, before and after it is preprocessed
    # or gets a setting (the cached value of the earlier state is not the
    # value of the later one)
    for rid in ("R_et", "R_rf", "R_svr", "R_et_names_bin"):
        out.append([{"op": "rate", "rater": rid},
                    {"op": "apply", "pipe": "P1"},
                    {"op": "rate", "rater": rid},
                    {"op": "apply", "pipe": "P2"},
                    {"op": "rate", "rater": rid}])
        out.append([{"op": "rate", "rater": rid},
                    {"op": "set", "key": "weight_cp", "val": "w_half"},
                    {"op": "rate", "rater": rid},
                    {"op": "apply", "pipe": "P1"},
                    {"op": "rate", "rater": rid}])
    fitted = states["fitted"]
    real = [r for r in world.RATERS
            if str(world.RATERS[r]["regressor"]).lower() != "none"]
    for rid in real:
        # an interrupted rating, then the real one (twice)
        out.append(list(fitted) + [{"op": "rate_fault", "rater": rid},
                                   {"op": "rate", "rater": rid},
                                   {"op": "rate", "rater": rid}])
        # a foreign rater with other hyper-parameters in between
        out.append(list(fitted) + [{"op": "rate", "rater": rid},
                                   {"op": "get_rater_kw", "rater": rid},
                                   {"op": "fit", "kw": {"weight_cp": "w_half"}},
                                   {"op": "rate", "rater": rid}])
    # raters that differ in ONE argument, one right after the other on the
    # same fit (the cached value belongs to the other one)
    for a, b in (("R_svr", "R_svr_ldaF"), ("R_svrl", "R_svrl_ldaF"),
                 ("R_et", "R_et_ldaF"), ("R_et", "R_et_lda"),
                 ("R_et", "R_et_names"), ("R_et", "R_rf"),
                 ("R_et", "R_et_mem"), ("R_rf", "R_rf_dir"),
                 ("R_svr", "R_svrl"), ("R_et", "R_none"),
                 ("R_et_names_con", "R_et_names"),
                 ("R_et_names_con", "R_et_names_bin"),
                 ("R_et_names", "R_et_names_bin")):
        for x, y in ((a, b), (b, a)):
            out.append(list(fitted) + [{"op": "rate", "rater": x},
                                       {"op": "rate", "rater": y},
                                       {"op": "rate", "rater": x}])
    # caller-owned training sets whose content changes between the calls
    import itertools
    for grp in (["R_et_memA", "R_et_memB", "R_et_memC"],
                ["R_rf_dirA", "R_rf_dirB"]):
        for a, b in itertools.permutations(grp, 2):
            out.append(list(fitted) + [{"op": "rate", "rater": a},
                                       {"op": "rate", "rater": b},
                                       {"op": "rate", "rater": a}])
    return out


def run(ctx):
    quick = ctx.tier == "quick"
    sl = {"rate": world.SLICES["rate"], "rate2": world.SLICES["rate2"],
          "rate3": world.SLICES["rate3"],
          "model": world.SLICES["model"], "pre": world.SLICES["pre"]}
    curve_check.run_engine(
        ctx, "C09_", sl,
        n_random=60 if quick else 600, rand_len=24,
        rand_weights=dict(rate=6, fit=4, set=2, apply=2, scan=0.05),
        walk_limit=400 if not quick else 150,
        curves=("syn1", "syn2", "rec1", "syn3"),
        scripted=state_rater_product())
    ctx.assumptions += [
        "expected value = standalone IndentationRater (assembled from the "
        "public pieces: load_training_set, regressor table, constructor) "
        ".rate(datasets=fresh fitted copy), compared bit-for-bit",
        "caller-owned training sets (an (X, y) tuple, a user directory) are "
        "edited in place between ratings (variants A/B of slice rate3)",
        "cross-process determinism is covered by comparing values computed "
        "in different worker processes (content-addressed ids)",
        "[0,10] is required for the tree regressors of the catalogue only",
    ]


def replay(ctx, obj):
    return curve_check.replay(ctx, obj, "C09_")
