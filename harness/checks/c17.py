"""C17 -- rating features are well-defined, bounded and independent of force
units (FeaturesClass.tla class table; Features.tla design)."""
import concurrent.futures as cf
import json
import random
import warnings

import numpy as np

import vcommon
from vcommon import MachineryError

P1 = ["compute_tip_position", "correct_force_offset", "correct_tip_offset"]
ALL = ["feat_bin_apr_spikes_count", "feat_bin_cp_position", "feat_bin_size",
       "feat_con_apr_flatness", "feat_con_apr_size", "feat_con_apr_sum",
       "feat_con_bln_slope", "feat_con_bln_variation",
       "feat_con_cp_curvature", "feat_con_cp_magnitude",
       "feat_con_idt_maxima_75perc", "feat_con_idt_monotony",
       "feat_con_idt_spike_area", "feat_con_idt_sum",
       "feat_con_idt_sum_75perc"]
BAD_FILES = ["fmt-jpk-fd_single_bad_2017-01-16_1.jpk-force",
             "fmt-jpk-fd_single_bad_2017-01-16_3.jpk-force",
             "fmt-jpk-fd_single_bad_GWAT_2017-10-17.jpk-force",
             "fmt-jpk-fd_single_bad_bead10_2017-04-27.jpk-force",
             "fmt-jpk-fd_single_tilted-baseline-drift-mitotic_2021-01-29"
             ".jpk-force",
             "fmt-jpk-fd_spot3-0192.jpk-force"]


def cls_of(v):
    v = float(v)
    if np.isnan(v):
        return "nan"
    if np.isinf(v):
        return "inf"
    if v == 0:
        return "zero"
    if v == 1:
        return "one"
    if v < 0:
        return "neg"
    return "in01" if v < 1 else "pos"


def make(recipe):
    import synth
    if recipe["kind"] == "rec":
        idnt = synth.load_recorded(recipe["file"])
    else:
        idnt = synth.make_curve(
            n_app=recipe["n_app"], n_ret=recipe.get("n_ret", 200),
            model_key=recipe.get("model", "hertz_para"),
            noise=recipe.get("noise", 2e-11), seed=recipe.get("seed", 1),
            spikes=recipe.get("spikes", 0), tilt=recipe.get("tilt", 0.),
            depth=recipe.get("depth", 1e-6), ring=recipe.get("ring", 0),
            z0=recipe.get("z0", 3e-6))
    return idnt


def bring_to_state(idnt, state, recipe):
    with warnings.catch_warnings():
        warnings.simplefilter("ignore")
        if state == "fresh":
            return False
        idnt.apply_preprocessing(list(P1))
        if state == "preprocessed":
            return False
        kw = dict(model_key=recipe.get("fit_model", "hertz_para"))
        if state == "failed":
            kw["range_x"] = [1.0, 2.0]
        if state == "fixedcp":
            p = idnt.get_initial_fit_parameters(
                model_key=kw["model_key"])
            p["contact_point"].set(value=recipe.get("cp", 5e-7), vary=False)
            kw["params_initial"] = p
        try:
            idnt.fit_model(**kw)
        except BaseException as exc:
            if isinstance(exc, (KeyboardInterrupt, SystemExit)):
                raise
            return False
        if state == "edited":
            idnt.fit_properties["weight_cp"] = 7.7e-7
            return False
        return bool(idnt.fit_properties.get("success", False))


def snapshot(idnt):
    cols = {c: vcommon.digest(np.asarray(idnt[c])) for c in idnt.columns}
    fp = idnt.fit_properties
    import world
    sett = {k: repr(world.norm(k, v)) if k in world.FP_KEYS
            else (repr(world._norm(v)) if k.startswith("params")
                  else repr(v)) for k, v in fp.items()
            if not isinstance(v, np.ndarray)}
    return cols, sett


def run_case(case):
    from nanite.rate.rater import IndentationRater
    recipe, state, requested, which = case
    rec = {"raised": "", "names": ["_"], "classes": ["nan"], "nnames": 0,
           "requested": ["_"] + list(requested), "which": which,
           "fitted": False, "forcepos": True, "values_match": True,
           "unchanged": True, "scale_ok": True, "retract_ok": True,
           "repeat_ok": True, "history_ok": True, "othercols_ok": True,
           "case": [recipe, state, requested, which]}
    try:
        idnt = make(recipe)
        rec["fitted"] = bring_to_state(idnt, state, recipe)
        seg = np.asarray(idnt["segment"]) == 0
        rec["forcepos"] = bool(np.max(np.asarray(idnt["force"])[seg]) > 0)
        before = snapshot(idnt)
        with warnings.catch_warnings():
            warnings.simplefilter("ignore")
            vals, names = IndentationRater.compute_features(
                idnt, which_type=which,
                names=list(requested) if requested else None, ret_names=True)
            vals2 = IndentationRater.compute_features(
                idnt, which_type=which,
                names=list(requested) if requested else None)
        rec["unchanged"] = snapshot(idnt) == before
        rec["names"] = list(names) or ["_"]
        rec["nnames"] = len(names)
        rec["classes"] = [cls_of(v) for v in vals] or ["nan"]
        rec["repeat_ok"] = bool(np.array_equal(vals, vals2, equal_nan=True))
        # every value belongs to the name at its position
        for n, v in zip(names, vals):
            with warnings.catch_warnings():
                warnings.simplefilter("ignore")
                one = IndentationRater.compute_features(idnt, names=[n])
            if not np.array_equal(np.asarray([v]), one, equal_nan=True):
                rec["values_match"] = False
        # a features object that was used before the curve reached its
        # present state (other pipeline, other model) sees the present
        # state, nothing of the earlier one
        try:
            from nanite.rate.features import IndentationFeatures
            if state == "fresh":
                raise StopIteration    # (not reachable from a used curve)
            h = make(recipe)
            with warnings.catch_warnings():
                warnings.simplefilter("ignore")
                h.apply_preprocessing(["compute_tip_position",
                                       "correct_tip_offset"])
                try:
                    h.fit_model(model_key="hertz_cone"
                                if recipe.get("fit_model", "hertz_para")
                                != "hertz_cone" else "hertz_para",
                                range_x=[-3e-7, 2e-7])
                except BaseException as exc:
                    if isinstance(exc, (KeyboardInterrupt, SystemExit)):
                        raise
                kept = IndentationFeatures(h)
                for n in IndentationFeatures.get_feature_names():
                    float(getattr(kept, n)())
                h.fit_properties["range_x"] = [0, 0]
                bring_to_state(h, state, recipe)
                vh = np.array([float(getattr(kept, n)()) for n in names])
            rec["history_ok"] = bool(np.array_equal(vh, vals,
                                                    equal_nan=True))
        except StopIteration:
            pass
        except BaseException as exc:
            if isinstance(exc, (KeyboardInterrupt, SystemExit)):
                raise
            rec["history_ok"] = False
            rec["history_exc"] = type(exc).__name__ + ": " + str(exc)[:80]
        # a common positive factor on force and fit changes nothing
        if "fit" in idnt:
            for c in (2.0, .5, 1e9):
                j = make(recipe)
                bring_to_state(j, state, recipe)
                j["force"] = np.asarray(j["force"]) * c
                j["fit"] = np.asarray(j["fit"]) * c
                if "fit residuals" in j:
                    j["fit residuals"] = np.asarray(j["fit residuals"]) * c
                with warnings.catch_warnings():
                    warnings.simplefilter("ignore")
                    vs = IndentationRater.compute_features(
                        j, which_type=which,
                        names=list(requested) if requested else None)
                if not np.allclose(vs, vals, rtol=1e-9, atol=1e-12,
                                   equal_nan=True):
                    rec["scale_ok"] = False
            # the retract segment does not matter
            j = make(recipe)
            bring_to_state(j, state, recipe)
            ret = np.asarray(j["segment"]) != 0
            rng = np.random.default_rng(5)
            for col in ("force", "fit", "fit residuals", "tip position"):
                if col in j:
                    a = np.array(j[col], copy=True)
                    a[ret] = a[ret] * 3.3 + rng.standard_normal(
                        int(ret.sum())) * (np.nanmax(np.abs(a)) or 1.)
                    j[col] = a
            with warnings.catch_warnings():
                warnings.simplefilter("ignore")
                vr = IndentationRater.compute_features(
                    j, which_type=which,
                    names=list(requested) if requested else None)
            rec["retract_ok"] = bool(np.array_equal(vr, vals,
                                                    equal_nan=True))
            # ... nor does any column other than abscissa, force and fit
            # (the stored residuals carry the contact-point weights, the
            # fit range is bookkeeping)
            j = make(recipe)
            bring_to_state(j, state, recipe)
            xax = j.fit_properties.get("x_axis", "tip position")
            yax = j.fit_properties.get("y_axis", "force")
            for col in list(j.columns):
                if col in (xax, yax, "fit", "segment"):
                    continue
                a = np.array(j[col], copy=True)
                if a.dtype == bool:
                    j[col] = ~a
                else:
                    a = a.astype(float)
                    j[col] = a * 2.7 + rng.standard_normal(a.size) * \
                        (np.nanmax(np.abs(a)) or 1.)
            with warnings.catch_warnings():
                warnings.simplefilter("ignore")
                vo = IndentationRater.compute_features(
                    j, which_type=which,
                    names=list(requested) if requested else None)
            rec["othercols_ok"] = bool(np.array_equal(vo, vals,
                                                      equal_nan=True))
    except BaseException as exc:
        if isinstance(exc, (KeyboardInterrupt, SystemExit)):
            raise
        import traceback
        rec["raised"] = type(exc).__name__ + ": " + str(exc)[:100]
        rec["tb"] = traceback.format_exc()[-600:]
    return rec


def cases(tier, rng):
    recipes = []
    for n_app in (900, 700, 300, 45, 15, 8):
        for model, noise, spikes in (("hertz_para", 2e-11, 0),
                                     ("hertz_cone", 8e-11, 0),
                                     ("hertz_para", 2e-11, 6),
                                     ("sneddon_spher_approx", 0., 0),
                                     ("hertz_pyr3s", 3e-11, 2)):
            recipes.append(dict(kind="syn", n_app=n_app, model=model,
                                noise=noise, spikes=spikes,
                                seed=rng.randrange(1000),
                                tilt=rng.choice([0., 3e-5])))
    for f in BAD_FILES:
        recipes.append(dict(kind="rec", file=f))
    states = ["fitted", "fitted", "fresh", "preprocessed", "failed",
              "edited", "fixedcp"]
    out = []
    for r in recipes:
        for st in states:
            req = rng.choice([(), tuple(rng.sample(ALL, 1)),
                              tuple(rng.sample(ALL, 4)),
                              tuple(rng.sample(ALL, 7))])
            which = rng.choice(["all", "all", "binary", "continuous"])
            r2 = dict(r)
            if st == "fixedcp":
                r2["cp"] = rng.choice([5e-6, -5e-6, 1e-7])
            out.append((r2, st, req, which))
    # long low-noise indentation parts with ringing artefacts (always)
    ringing = []
    for ring in (1, 3, 7, -1, -3, -7):
        for noise in (0., 1e-12):
            r = dict(kind="syn", n_app=4000, model="hertz_para", noise=noise,
                     spikes=0, seed=5, tilt=0., ring=ring, z0=1e-6,
                     depth=2e-6)
            ringing.append((r, "fitted", (), "all"))
    if tier == "quick":
        out = rng.sample(out, 110) + ringing
    else:
        out += ringing
        out = out + [(r, st, tuple(rng.sample(ALL, rng.choice([2, 3, 5]))),
                      rng.choice(["all", "binary", "continuous"]))
                     for r in recipes for st in states]
    return out


def run(ctx):
    rng = random.Random(ctx.seed * 23 + 9)
    res = vcommon.tlc("Features.tla", "Features.cfg", ctx.scratch)
    vcommon.need_ok(res, "Features design")
    vcommon.need_actions(res, ["Compute", "ScaleForce", "PerturbRetract",
                               "DoFit", "DropFit"], "Features design")
    ctx.add_tlc(res, "Features.tla (features determined by approach data "
                     "and fit only)")
    cs = cases(ctx.tier, rng)
    with cf.ProcessPoolExecutor(max_workers=min(vcommon.NCPU, 16)) as pool:
        recs = list(pool.map(run_case, cs, chunksize=2))
    path = ctx.scratch / "c17_batch.json"
    path.write_text(json.dumps(vcommon.jsonable({"records": [
        {k: v for k, v in r.items() if k not in ("case", "tb")}
        for r in recs]})))
    t = vcommon.tlc("FeaturesTrace.tla", "FeaturesTrace.cfg", ctx.scratch,
                    env={"TRACE_FILE": path}, workers=1, coverage=False,
                    timeout=3000)
    if t.violated or t.error:
        raise MachineryError("FeaturesTrace failed:\n"
                             + vcommon.err_excerpt(t.stdout))
    ctx.tlc_states += t.distinct
    ctx.tlc_transitions += len(recs)
    ctx.traces = len(recs)
    for obj in t.printed():
        r = recs[obj["rec"] - 1]
        for cl in obj["failed"]:
            recipe, state, requested, which = r["case"]
            ctx.report(f"{cl}|{recipe}|{state}|{which}|{sorted(requested)}",
                       f"{cl} fails for curve {recipe} in state '{state}', "
                       f"which_type={which}, names requested {requested}: "
                       f"returned {list(zip(r['names'], r['classes']))} "
                       f"flags unchanged={r['unchanged']} scale="
                       f"{r['scale_ok']} retract={r['retract_ok']} "
                       f"match={r['values_match']} {r['raised']} "
                       f"{r.get('tb', '')}",
                       {"kind": "features", "case": r["case"]})
    states = {}
    for r in recs:
        states[r["case"][1]] = states.get(r["case"][1], 0) + 1
    ctx.coverage.update({"records": len(recs), "by_state": states,
                         "fitted_records": sum(1 for r in recs
                                               if r["fitted"])})
    ctx.sample({"case": recs[0]["case"],
                "result": list(zip(recs[0]["names"], recs[0]["classes"]))})
    ctx.sample({"case": recs[-1]["case"],
                "result": list(zip(recs[-1]["names"], recs[-1]["classes"]))})
    ctx.assumptions += [
        "the common force factor is applied to the force, fit and residual "
        "columns of an equal fitted curve (2, 1/2 exact; 1e9 within 1e-9)",
        "the class table (binary / fraction / magnitude / signed; bin_size "
        "defined without a fit) is part of FeaturesClass.tla",
    ]


def replay(ctx, obj):
    c = obj["case"]
    r = run_case((c[0], c[1], tuple(c[2]), c[3]))
    print(r)
    return False
