"""C16 -- rating containers round-trip and only ever grow (Container.tla,
fault injection at every h5py write call of a save)."""
import concurrent.futures as cf
import json
import random

import container_check as cc
import vcommon
from vcommon import MachineryError


def run(ctx):
    ctx.level = "fault_enumeration"
    rng = random.Random(ctx.seed * 31 + 5)
    steps = cc.record_steps(ctx.scratch)
    steps_path = ctx.scratch / "steps.json"
    steps_path.write_text(json.dumps(steps))
    nsteps = {k: max(len(v) for v in steps[k].values())
              for k in ("new", "new_noraw", "resave")}
    # design: micro-step protocol with a crash between any two steps
    res = vcommon.tlc("MC_Container.tla", "Container.cfg", ctx.scratch,
                      env={"STEPS": steps_path}, timeout=3000)
    if res.violated:
        # the step lists are the implementation's: a design invariant that
        # fails with them is a violation of the save protocol of the code
        ctx.report(f"C16_Design_{res.violated}|steps:"
                   + ",".join(s["kind"] for s in steps["resave"]["f1"])[:120],
                   f"with the write-step lists recorded from the real "
                   f"save_hdf5, Container.tla violates {res.violated}: "
                   + vcommon.err_excerpt(res.stdout, 1500),
                   {"kind": "design", "invariant": res.violated})
    elif res.error:
        raise MachineryError("Container design: " + res.error)
    else:
        vcommon.need_actions(res, ["Begin", "WriteStep", "Finish", "Crash"],
                             "Container design")
    ctx.add_tlc(res, "Container.tla (3 curves, 2 fits, 2 users, <=3 saves, "
                     "crash between any two write steps)")
    hash2fit = [((cc.idd(c), cc.reference(c, f)["hash"]), f)
                for c in cc.CURVES for f in cc.FITS]
    hists = cc.histories(ctx.tier, rng, nsteps)
    jobs = [(h, str(ctx.scratch), hash2fit) for h in hists]
    import multiprocessing as mp
    # spawn: afmformats caches open archive handles, which forked workers
    # would share (and corrupt each other's reads)
    with cf.ProcessPoolExecutor(max_workers=min(vcommon.NCPU, 16),
                                mp_context=mp.get_context("spawn")) as pool:
        traces = list(pool.map(cc.run_history, jobs, chunksize=4))
    failed, states = cc.validate(ctx, traces, steps_path, "main")
    ctx.tlc_states += states
    nev = sum(len(t["events"]) for t in traces)
    ctx.tlc_transitions += nev
    ctx.traces = len(traces)
    for (ti, ei), clauses in sorted(failed.items()):
        tr = traces[ti]
        ev = tr["events"][ei]
        for cl in clauses:
            step = "none"
            if ev["crash"]:
                step = f"{ev['crash']}"
            fp = f"{cl}|{sig(tr['hist'][:ei + 1])}"
            ctx.report(fp, f"{cl} fails after saves {tr['hist'][:ei + 1]} "
                       f"(curve, fit, user, fault at write call): out="
                       f"{ev['out']} {ev['exc']} writes={ev['nwrites']} "
                       f"load_ok={ev['post']['load_ok']} "
                       f"{ev['post'].get('load_exc', '')} loaded="
                       f"{ev['post']['loaded'][1:]} rt="
                       f"{[ev['post'][k] for k in ('rt_columns', 'rt_settings', 'rt_user', 'rt_features')]}",
                       {"kind": "container", "hist": tr["hist"][:ei + 1],
                        "clause": cl})
    crash_points = sorted({(len(h), x[3]) for h in hists for x in h if x[3]})
    ctx.coverage.update({
        "evaluations": nev,
        "distinct_nontrivial": len({json.dumps(h) for h in hists}),
        "rule": ("a case is a history of <= 4 saves (curve, fit, user, "
                 "fault at the s-th h5py write call or none) on a fresh "
                 "container; distinct = distinct histories; all have >= 1 "
                 "save, non-trivial = every one (each is followed by a full "
                 "load and dump comparison)"),
        "histories": len(hists), "save_events": nev,
        "write_steps_per_save": nsteps,
        "fault_positions_injected": len({x[3] for h in hists for x in h
                                         if x[3]}),
        "events_rejected": len(failed),
    })
    ctx.sample({"history": traces[0]["hist"],
                "out": [e["out"] for e in traces[0]["events"]],
                "loaded_after": [e["post"]["loaded"][1:]
                                 for e in traces[0]["events"]]})
    ctx.sample({"history": traces[-1]["hist"],
                "out": [e["out"] for e in traces[-1]["events"]]})
    ctx.assumptions += [
        "a 'failure part-way' is an OSError raised by the s-th outermost "
        "h5py write call (create_dataset / create_group / require_group / "
        "attribute assignment) of save_hdf5; power loss inside the HDF5 "
        "library itself is not modelled",
        "user time / time string attributes are excluded from byte "
        "comparisons",
    ]


def sig(hist):
    return ";".join("/".join(str(v) for v in h) for h in hist)


def replay(ctx, obj):
    if obj.get("kind") == "design":
        steps = cc.record_steps(ctx.scratch)
        sp = ctx.scratch / "steps.json"
        sp.write_text(json.dumps(steps))
        res = vcommon.tlc("MC_Container.tla", "Container.cfg", ctx.scratch,
                          env={"STEPS": sp}, timeout=3000)
        print(res.violated)
        return not res.violated
    steps = cc.record_steps(ctx.scratch)
    steps_path = ctx.scratch / "steps.json"
    steps_path.write_text(json.dumps(steps))
    hash2fit = [((cc.idd(c), cc.reference(c, f)["hash"]), f)
                for c in cc.CURVES for f in cc.FITS]
    tr = cc.run_history(([tuple(h) for h in obj["hist"]], str(ctx.scratch),
                         hash2fit))
    failed, _ = cc.validate(ctx, [tr], steps_path, "replay")
    print([(e["out"], e["exc"], e["post"]["load_ok"]) for e in tr["events"]],
          failed)
    return not failed
