"""C14 -- preprocessing order rules / autosort (Autosort.tla, exhaustive)."""
import copy
import itertools
import json

import numpy as np

import vcommon
from vcommon import MachineryError
import synth


KNOWN = [()]


def export_registry(ctx):
    from nanite import preproc
    steps = [p.identifier for p in preproc.PREPROCESSORS]
    KNOWN[0] = tuple(steps)
    reg = {"steps": steps,
           "req": {p.identifier: list(p.steps_required or [])
                   for p in preproc.PREPROCESSORS},
           "opt": {p.identifier: list(p.steps_optional or [])
                   for p in preproc.PREPROCESSORS}}
    path = ctx.scratch / "autosort_reg.json"
    path.write_text(json.dumps(reg))
    return reg, path


def observe(inp, kind, curve_factory):
    """Run the real functions on one input list and record what happened."""
    from nanite import preproc
    rec = {"inp": list(inp), "kind": kind, "sort_ok": False, "sort_out": [],
           "again_ok": False, "again_out": [], "check": False,
           "apply": False, "apply_hist": False, "exc": {}}
    arg = list(inp)
    try:
        out = preproc.autosort(arg)
        rec["sort_ok"] = True
        rec["sort_out"] = list(out)
    except (ValueError, KeyError) as exc:
        rec["exc"]["sort"] = type(exc).__name__
    rec["arg_unchanged"] = (arg == list(inp))
    if rec["sort_ok"]:
        try:
            again = preproc.autosort(list(rec["sort_out"]))
            rec["again_ok"] = True
            rec["again_out"] = list(again)
        except (ValueError, KeyError) as exc:
            rec["exc"]["again"] = type(exc).__name__
    try:
        preproc.check_order(list(inp))
        rec["check"] = True
    except (ValueError, KeyError) as exc:
        rec["exc"]["check"] = type(exc).__name__
    try:
        idnt = curve_factory()
        preproc.apply(idnt, identifiers=list(inp), options={})
        rec["apply"] = True
    except (ValueError, KeyError) as exc:
        rec["exc"]["apply"] = type(exc).__name__
    # through the curve object, after a valid arrangement of the same steps
    # (known identifiers only) has been applied to it
    try:
        idnt = curve_factory()
        known = [s for s in inp if s in KNOWN[0]]
        try:
            first = preproc.autosort(list(known))
            idnt.apply_preprocessing(list(first), {})
        except (ValueError, KeyError):
            pass
        idnt.apply_preprocessing(list(inp), {})
        rec["apply_hist"] = True
    except (ValueError, KeyError) as exc:
        rec["exc"]["apply_hist"] = type(exc).__name__
    return rec


def all_records(reg):
    from nanite import preproc
    steps = reg["steps"]

    def factory():
        return synth.make_curve(n_app=120, noise=1e-11, seed=1)
    recs = []
    for r in range(len(steps) + 1):
        for sel in itertools.permutations(steps, r):
            recs.append(observe(sel, "selection", factory))
    # lists with an unknown identifier at every position of some valid lists
    bases = [[], ["compute_tip_position"],
             ["compute_tip_position", "correct_tip_offset"],
             ["compute_tip_position", "correct_tip_offset",
              "correct_force_slope"],
             list(preproc.available())]
    for base in bases:
        for pos in range(len(base) + 1):
            for bogus in ("bogus_step", "", "Compute_tip_position"):
                lst = base[:pos] + [bogus] + base[pos:]
                recs.append(observe(lst, "unknown", factory))
    # lists that name a step twice
    reps = [["compute_tip_position", "correct_force_slope",
             "correct_tip_offset", "correct_force_slope"],
            ["compute_tip_position", "correct_tip_offset",
             "compute_tip_position"],
            ["correct_tip_offset", "compute_tip_position",
             "correct_tip_offset"],
            ["compute_tip_position", "compute_tip_position",
             "correct_tip_offset"]]
    for base in (["compute_tip_position", "correct_tip_offset",
                  "correct_force_slope"],
                 ["compute_tip_position", "correct_force_slope",
                  "correct_tip_offset"],
                 ["compute_tip_position", "correct_tip_offset",
                  "correct_split_approach_retract", "smooth_height"]):
        for i in range(len(base)):
            for pos in range(len(base) + 1):
                reps.append(base[:pos] + [base[i]] + base[pos:])
    seen = set()
    for lst in reps:
        if tuple(lst) not in seen:
            seen.add(tuple(lst))
            recs.append(observe(lst, "repeated", factory))
    # the list of available steps, as the library hands it out AFTER all
    # the accepted and refused requests above (and once more from scratch)
    def safe_available():
        # (a library that cannot even list its steps any more has lost the
        # property: an empty list fails the clauses of the available list)
        try:
            return list(preproc.available())
        except BaseException as exc:
            if isinstance(exc, (KeyboardInterrupt, SystemExit)):
                raise
            return []
    recs.append(observe(safe_available(), "available", factory))
    preproc.available.cache_clear()
    recs.append(observe(safe_available(), "available", factory))
    return recs


def validate(ctx, recs, reg_path, label):
    path = ctx.scratch / f"autosort_batch_{label}.json"
    path.write_text(json.dumps(recs))
    res = vcommon.tlc("AutosortTrace.tla", "AutosortTrace.cfg", ctx.scratch,
                      env={"AUTOSORT_REG": reg_path, "TRACE_FILE": path},
                      workers=1, coverage=False)
    if res.violated or res.error:
        raise MachineryError("AutosortTrace failed:\n" + vcommon.err_excerpt(res.stdout))
    failed = {}
    casespace = None
    for obj in res.printed():
        if "casespace" in obj:
            casespace = obj
        elif "rec" in obj:
            failed[obj["rec"]] = sorted(obj["failed"])
    return res, failed, casespace


def run(ctx):
    reg, reg_path = export_registry(ctx)
    env = {"AUTOSORT_REG": reg_path}

    # 1. design: the transcription of the algorithm satisfies the contract
    #    for every ordered selection
    res = vcommon.tlc("Autosort.tla", "Autosort.cfg", ctx.scratch, env=env)
    vcommon.need_ok(res, "Autosort design")
    vcommon.need_actions(res, ["Outer", "Pids", "Pre", "Check", "Emit"],
                         "Autosort design")
    ctx.add_tlc(res, "Autosort.tla fixed-point transcription vs contract")
    model_out = {}
    for obj in res.printed():
        model_out[tuple(obj["inp"])] = (obj["result"], obj["out"])
    # negative control (vacuity): the single-pass algorithm must be refuted
    neg = vcommon.tlc("Autosort.tla", "Autosort.singlepass.cfg", ctx.scratch,
                      env=env, coverage=False)
    if neg.violated != "SortContract":
        raise MachineryError(
            "negative control: single-pass autosort was not refuted by TLC "
            f"(got {neg.violated!r})")
    ctx.coverage["negative_control"] = \
        "single-pass transcription refuted by TLC (SortContract)"

    # 2. code -> spec: the real functions on the whole input space
    recs = all_records(reg)
    tres, failed, casespace = validate(ctx, recs, reg_path, "real")
    ctx.add_tlc(tres, "AutosortTrace.tla over real observations")
    if not casespace or casespace["casespace"] is not True:
        raise MachineryError(
            "harness did not cover the spec's case space: %r" % casespace)
    ctx.traces = len(recs)
    nsel = sum(1 for r in recs if r["kind"] == "selection")
    ncomplete = 0
    agree = 0
    for i, rec in enumerate(recs, start=1):
        if rec["kind"] == "selection":
            mo = model_out.get(tuple(rec["inp"]))
            if mo is None:
                raise MachineryError(f"model has no output for {rec['inp']}")
            if mo[0] == "ok":
                ncomplete += 1
            if (mo[0] == "ok") == rec["sort_ok"] and \
                    (not rec["sort_ok"] or mo[1] == rec["sort_out"]):
                agree += 1
        if i in failed:
            for clause in failed[i]:
                fp = f"C14|{clause}|{','.join(rec['inp'])}"
                ctx.report(fp,
                           f"{clause} fails for input {rec['inp']}: observed "
                           f"sort_ok={rec['sort_ok']} out={rec['sort_out']} "
                           f"check={rec['check']} apply={rec['apply']} "
                           f"exc={rec['exc']}",
                           {"kind": "autosort", "inp": rec["inp"],
                            "rec_kind": rec["kind"], "clause": clause})
    ctx.sample({"input": recs[700]["inp"], "real": recs[700],
                "model": model_out.get(tuple(recs[700]["inp"]))})
    ctx.sample({"input": recs[-1]["inp"], "real": recs[-1]})
    ctx.coverage.update({
        "exhaustive": True,
        "selections": nsel,
        "complete_selections": ncomplete,
        "unknown_identifier_lists": sum(
            1 for r in recs if r["kind"] == "unknown"),
        "records_rejected_by_trace_spec": len(failed),
        "real_output_equals_transcription": agree,
        "registry": reg,
    })
    if agree != nsel:
        ctx.note(f"real autosort and the PlusCal transcription differ on "
                 f"{nsel - agree} selections (informational; the verdict "
                 "comes from the contract)")

    # 3. binding self-test: a corrupted observation must be rejected
    bad = copy.deepcopy(recs[700:720])
    victim = next((r for r in bad if r["sort_ok"]
                   and len(r["sort_out"]) >= 2), None)
    if victim is None:
        # (the tree under test sorts nothing here; corrupt another field)
        victim = bad[0]
        victim["check"] = not victim["check"]
    else:
        victim["sort_out"] = victim["sort_out"][::-1] \
            if victim["sort_out"][::-1] != victim["sort_out"] else []
    full = [r for r in recs if r["kind"] == "selection"
            and r is not None][:0]
    _, failed2, _ = validate(ctx, bad, reg_path, "selftest")
    if not failed2:
        raise MachineryError("binding self-test: corrupted record accepted")
    ctx.coverage["binding_selftest"] = \
        f"corrupted sort_out rejected: {sorted(set(sum(failed2.values(), [])))}"
    ctx.assumptions += [
        "apply acceptance is observed on a 240-point synthetic hertz curve; "
        "ValueError/KeyError from preproc.apply count as rejection",
        "behaviour of autosort on selections that lack a required step is "
        "not constrained (the statement quantifies over complete selections)",
    ]


def replay(ctx, obj):
    reg, reg_path = export_registry(ctx)

    def factory():
        return synth.make_curve(n_app=120, noise=1e-11, seed=1)
    rec = observe(obj["inp"], obj.get("rec_kind", "selection"), factory)
    _, failed, _ = validate(ctx, [rec], reg_path, "replay")
    print(json.dumps(rec), failed)
    return not failed
