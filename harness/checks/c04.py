"""C04 -- exactly the requested points are fitted (FitPasses.tla: rank
abstraction of intervals and masks, pass structure of multi-pass fits)."""
import fit_check


def run(ctx):
    fit_check.run_engine(ctx, "C04_", "C04", with_ranks=False)
    ctx.assumptions += [
        "ranks of interval bounds among the sample abscissae are computed by "
        "the harness with bisect on the float values (trusted projection); "
        "the expected point mask is computed by TLC from the ranks",
        "anchoring of relative-cp passes is checked as float equality of the "
        "interval used with requested + contact point of the previous pass",
    ]


def replay(ctx, obj):
    return fit_check.replay(ctx, obj, "C04_")
