"""Harness for ModelContract.tla (C13)."""
import itertools
import types
import warnings

import numpy as np

import vcommon
from trainingset_check import out_cell

SEEN = []        # abscissa the user's function was last called with


def _g(x, E, cp, b):
    return E * np.maximum(0, cp - x) ** 2 + b


def f_pointwise(delta, E, contact_point=0, baseline=0):
    SEEN[:] = [delta.tolist()]
    return _g(delta, E, contact_point, baseline)


def f_prefix_sum(delta, E, contact_point=0, baseline=0):
    SEEN[:] = [delta.tolist()]
    return np.cumsum(_g(delta, E, contact_point, baseline))


def f_index_weighted(delta, E, contact_point=0, baseline=0):
    SEEN[:] = [delta.tolist()]
    return np.arange(1, delta.size + 1) * _g(delta, E, contact_point,
                                             baseline)


def f_running_max(delta, E, contact_point=0, baseline=0):
    SEEN[:] = [delta.tolist()]
    return np.maximum.accumulate(_g(delta, E, contact_point, baseline))


def f_pointwise_kwonly(delta, E, *, contact_point=0, baseline=0):
    """a user's function with keyword-only contact point and baseline"""
    SEEN[:] = [delta.tolist()]
    return _g(delta, E, contact_point, baseline)


_MEMO = {}


def f_pointwise_memo(delta, E, contact_point=0, baseline=0):
    """a user's function that remembers its results and hands out the
    remembered array object again"""
    SEEN[:] = [delta.tolist()]
    key = (delta.tobytes(), float(E), float(contact_point), float(baseline))
    if key not in _MEMO:
        if len(_MEMO) > 5000:
            _MEMO.clear()
        _MEMO[key] = _g(delta, E, contact_point, baseline)
    return _MEMO[key]


TOYS = {"pointwise": f_pointwise, "prefix_sum": f_prefix_sum,
        "index_weighted": f_index_weighted, "running_max": f_running_max,
        "pointwise_kwonly": f_pointwise_kwonly,
        "pointwise_memo": f_pointwise_memo}


def toy_module(name, func):
    import lmfit
    mod = types.ModuleType(f"verif_toy_{name}")

    def get_parameter_defaults():
        p = lmfit.Parameters()
        p.add("E", value=2., min=0)
        p.add("contact_point", value=0)
        p.add("baseline", value=0)
        return p
    mod.get_parameter_defaults = get_parameter_defaults
    mod.model_func = func
    mod.model_doc = "toy"
    mod.model_key = f"verif_toy_{name}"
    mod.model_name = f"verif toy {name}"
    mod.parameter_keys = ["E", "contact_point", "baseline"]
    mod.parameter_names = ["Modulus", "Contact Point", "Baseline"]
    mod.parameter_units = ["Pa", "m", "N"]
    mod.valid_axes_x = ["tip position"]
    mod.valid_axes_y = ["force"]
    return mod


def register_toys():
    from nanite import model
    mds = {}
    for name, func in TOYS.items():
        mds[name] = model.register_model(toy_module(name, func))
    return mds


def deregister_toys(mds):
    from nanite import model
    for md in mds.values():
        model.deregister_model(md)


def eval_cases(tier, rng):
    xs = []
    for n in range(1, 6):
        xs += list(itertools.product(range(-2, 3), repeat=n))
    cases = []
    for name in TOYS:
        for x in xs:
            for cp in (-1, 0, 1):
                cases.append((name, x, cp))
    if tier == "quick":
        # all sequences up to length 3, a sample of the longer ones
        short = [c for c in cases if len(c[1]) <= 3]
        long = [c for c in cases if len(c[1]) > 3]
        cases = short + rng.sample(long, 6000)
    return cases


def run_evals(cases, rng):
    mds = register_toys()
    out = []
    try:
        for name, x, cp in cases:
            md = mds[name]
            E, b = 2, 1
            wd = rng.choice([0, 2, 3])
            cpr = rng.choice([cp, -3, 3])        # also outside the data
            data = [3 * i - 2 for i in range(len(x))]
            xa = np.array(x, dtype=float)
            da = np.array(data, dtype=float)
            p = md.get_parameter_defaults()
            p["E"].set(value=E)
            p["contact_point"].set(value=cp)
            p["baseline"].set(value=b)
            rec = {"name": name, "x": list(x), "E": E, "cp": cp, "b": b,
                   "wd": wd, "data": data, "raised": "", "out": [0],
                   "seen": [0], "res": [[0, 1]], "inputs_same": True,
                   "stable": True}
            try:
                SEEN[:] = []
                snap = (xa.tobytes(), da.tobytes(), p.valuesdict())
                with warnings.catch_warnings():
                    warnings.simplefilter("ignore")
                    o = np.array(md.model(p, xa), copy=True)
                    seen = list(SEEN[0]) if SEEN else []
                    # residuals with the contact point of THIS evaluation
                    p2 = md.get_parameter_defaults()
                    p2["E"].set(value=E)
                    p2["contact_point"].set(value=cpr)
                    p2["baseline"].set(value=b)
                    r = md.residual(p2, xa, da, wd)
                    # ... and the residuals for the SAME parameters, then
                    # the model again: it still is the model
                    md.residual(p, xa, da, wd)
                    o2 = np.asarray(md.model(p, xa))
                    rec["stable"] = bool(np.array_equal(o, o2))
                rec["inputs_same"] = snap == (xa.tobytes(), da.tobytes(),
                                              p.valuesdict())
                rec["out"] = [int(v) if float(v).is_integer() else 10 ** 6
                              for v in np.asarray(o).tolist()]
                rec["seen"] = [int(v) for v in seen] or [0]
                rec["res"] = [out_cell(v)[1:] for v in np.asarray(r)]
                rec["cp_res"] = cpr
            except BaseException as exc:
                if isinstance(exc, (KeyboardInterrupt, SystemExit)):
                    raise
                rec["raised"] = type(exc).__name__
                rec["cp_res"] = cpr
            out.append(rec)
    finally:
        deregister_toys(mds)
    return out


# --------------------------------------------------------------------------
def meta_cases():
    """metamorphic relations on the REAL functions of every registered
    model (shipped, plug-in, toys); binary-exact inputs"""
    from nanite import model
    mds = register_toys()
    out = []
    u = 2.0 ** -22
    try:
        for key, md in sorted(model.models_available.items()):
            for orient, point in [(o, pt) for o in ("desc", "asc")
                                  for pt in ("default", "soft", "stiff",
                                             "layer_stiffer")]:
                if point != "default" and key.startswith("verif_toy"):
                    continue
                if point == "layer_stiffer" and not (
                        "E_S" in md.parameter_keys
                        and "E_L" in md.parameter_keys):
                    continue
                rec = {"model": key, "orient": orient, "point": point,
                       "raised": "",
                       "shape_ok": True, "translation_ok": True,
                       "baseline_ok": True, "linear_ok": True,
                       "continuous_ok": True, "monotone_ok": True,
                       "inputs_same": True, "residual_ok": True}
                try:
                    p = md.get_parameter_defaults()
                    toy = key.startswith("verif_toy")
                    if "R" in p:
                        p["R"].set(value=16 * u)
                    if "t" in p:
                        p["t"].set(value=2 * u)
                    cp = 3 * u
                    p["contact_point"].set(value=cp)
                    p["baseline"].set(value=2.0 ** -31)
                    pa_keys = [k2 for k2, un in zip(md.parameter_keys,
                                                    md.parameter_units)
                               if un == "Pa"]
                    if point in ("soft", "stiff"):
                        # every modulus far below 1 Pa / in the MPa range
                        fac = 2.0 ** -14 if point == "soft" else 2.0 ** 9
                        for k2 in pa_keys:
                            p[k2].set(value=p[k2].value * fac,
                                      min=-np.inf, max=np.inf)
                        p["baseline"].set(value=2.0 ** -31 * fac)
                    elif point == "layer_stiffer":
                        p["E_S"].set(value=500.)
                        p["E_L"].set(value=800.)
                    depth = 12 * u if "R" in p else 40 * u
                    x = cp + np.linspace(8, -12 if "R" in p else -40, 41) * u
                    if toy:
                        x = np.arange(6, -7, -1).astype(float)
                        p["contact_point"].set(value=1.0)
                        p["baseline"].set(value=1.0)
                        cp = 1.0
                    if orient == "asc":
                        x = x[::-1].copy()
                    snap = (x.tobytes(), p.valuesdict())
                    order_sensitive = toy and "pointwise" not in key
                    with warnings.catch_warnings():
                        warnings.simplefilter("ignore")
                        f0 = np.asarray(md.model(p, x), float)
                        rec["shape_ok"] = f0.shape == x.shape
                        if not order_sensitive:
                            fr = np.asarray(md.model(p, x[::-1].copy()))
                            rec["shape_ok"] &= bool(
                                np.array_equal(fr[::-1], f0))
                        # a single sample is an abscissa too
                        f1 = np.asarray(md.model(p, x[:1].copy()))
                        rec["shape_ok"] &= bool(f1.shape == (1,))
                        b0 = p["baseline"].value
                        scale = float(np.max(np.abs(f0 - b0))) or 1.0
                        # translation: abscissa and contact point together
                        s = 64 * u if not toy else 4.0
                        pt = md.get_parameter_defaults()
                        for n2 in p:
                            pt[n2].set(value=p[n2].value, min=-np.inf,
                                   max=np.inf)
                        pt["contact_point"].set(value=cp + s)
                        ft = np.asarray(md.model(pt, x + s), float)
                        rec["translation_ok"] = bool(
                            np.all(np.abs(ft - f0) <= 1e-9 * scale))
                        # baseline additivity
                        pb = md.get_parameter_defaults()
                        for n2 in p:
                            pb[n2].set(value=p[n2].value, min=-np.inf,
                                   max=np.inf)
                        db = 2.0 ** -29 if not toy else 2.0
                        pb["baseline"].set(value=b0 + db)
                        fb = np.asarray(md.model(pb, x), float)
                        if order_sensitive:
                            rec["baseline_ok"] = True   # not additive by design
                        else:
                            rec["baseline_ok"] = bool(np.all(
                                np.abs((fb - f0) - db) <= 1e-9 * scale))
                        # all moduli scaled together
                        pl = md.get_parameter_defaults()
                        for n2 in p:
                            pl[n2].set(value=p[n2].value, min=-np.inf,
                                       max=np.inf)
                        mod_keys = [k2 for k2, un in zip(
                            md.parameter_keys, md.parameter_units)
                            if un == "Pa"]
                        rec["linear_ok"] = True
                        for lam in (2.0, 2.0 ** -3, 2.0 ** 7):
                            for k2 in mod_keys:
                                pl[k2].set(value=lam * p[k2].value)
                            fl = np.asarray(md.model(pl, x), float)
                            if not order_sensitive and not np.all(np.abs(
                                    (fl - b0) - lam * (f0 - b0))
                                    <= 1e-9 * scale * max(lam, 1.)):
                                rec["linear_ok"] = False
                        # continuity at contact, monotone with depth
                        if not toy:
                            # (moderately small depths: the optional exact
                            # Sneddon plug-in does not terminate for 1e-18)
                            xx = cp - depth * np.array([0., 2.0 ** -30,
                                                        2.0 ** -24])
                            fc = np.asarray(md.model(p, xx), float)
                            rec["continuous_ok"] = bool(
                                np.all(np.abs(fc - b0) <= 1e-6 * scale))
                            xd = np.sort(x)[::-1]
                            fd = np.asarray(md.model(p, xd.copy()), float)
                            rec["monotone_ok"] = bool(
                                np.all(np.diff(fd) >= -1e-12 * scale))
                        # default residuals = (data - model) * weights
                        if "default_residuals_wrapper" in \
                                md.residual.__qualname__:
                            data = f0 * 1.25 + 2.0 ** -30
                            for cpr in (cp, x.max() + 2 * u * (1 if not toy
                                                               else 1e22),
                                        x.min() - 1e3 * (u if not toy
                                                         else 1)):
                                pr = md.get_parameter_defaults()
                                for n2 in p:
                                    pr[n2].set(value=p[n2].value, min=-np.inf,
                                   max=np.inf)
                                pr["contact_point"].set(value=cpr)
                                wd = 4 * u if not toy else 3.0
                                r = np.asarray(md.residual(
                                    pr, x, data.copy(), wd), float)
                                mm = np.asarray(md.model(pr, x), float)
                                w = np.abs(x - cpr) / wd
                                w[w > 1] = 1
                                ref = (data - mm) * w
                                if not np.all(np.abs(r - ref)
                                              <= 1e-9 * scale):
                                    rec["residual_ok"] = False
                                # without the argument the documented
                                # default distance (0.5 um) applies
                                rd = np.asarray(md.residual(
                                    pr, x, data.copy()), float)
                                wdd = np.abs(x - cpr) / 5e-7
                                wdd[wdd > 1] = 1
                                if not toy and not np.all(
                                        np.abs(rd - (data - mm) * wdd)
                                        <= 1e-9 * scale):
                                    rec["residual_ok"] = False
                                r0 = np.asarray(md.residual(
                                    pr, x, data.copy(), 0), float)
                                if not np.all(np.abs(r0 - (data - mm))
                                              <= 1e-9 * scale):
                                    rec["residual_ok"] = False
                    rec["inputs_same"] = snap == (x.tobytes(),
                                                  p.valuesdict())
                except BaseException as exc:
                    if isinstance(exc, (KeyboardInterrupt, SystemExit)):
                        raise
                    rec["raised"] = type(exc).__name__ + ": " \
                        + str(exc)[:80]
                out.append(rec)
    finally:
        deregister_toys(mds)
    return out
