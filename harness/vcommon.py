"""Shared machinery for the nanite model-based verification checks.

Everything a check needs that is not property specific lives here:

* running TLC / SANY and parsing their output (states, coverage, PrintT),
* the check context (tier, seed, scratch directory, candidate violations,
  known-findings classification, evidence writer, exit codes),
* small helpers (json-safe conversion, digests).

Exit codes of a check: 0 property held (possibly KNOWN-FINDING lines),
1 a violation that is not listed in known_findings.json, 2 machinery failure.
"""
import fnmatch
import hashlib
import json
import os
import pathlib
import re
import shutil
import subprocess
import sys
import tempfile
import time
import traceback

VERIF = pathlib.Path(__file__).resolve().parents[1]
SPEC = VERIF / "spec"
REPO = pathlib.Path(os.environ.get("NANITE_REPO", "/repo"))
# (runs against seeded copies write their evidence and replays elsewhere)
OUTDIR = pathlib.Path(os.environ.get("VERIF_OUTDIR", "") or
                      pathlib.Path(__file__).resolve().parents[1])
TLA_CP = ("/opt/veriftools/tla/tla2tools.jar:"
          "/opt/veriftools/tla/CommunityModules-deps.jar")
NCPU = os.cpu_count() or 4


class MachineryError(Exception):
    """Something in the verification machinery itself failed (exit 2)."""


# --------------------------------------------------------------------------
# TLC
# --------------------------------------------------------------------------

class TLCResult:
    def __init__(self):
        self.stdout = ""
        self.returncode = None
        self.generated = 0
        self.distinct = 0
        self.depth = 0
        self.actions = {}      # action name -> [distinct, taken]
        self.violated = None   # name of violated invariant / property
        self.error = None      # other TLC error text
        self.wall_s = 0.0
        self.cmd = ""

    @property
    def ok(self):
        return self.returncode == 0 and not self.violated and not self.error

    def printed(self):
        """PrintT'ed JSON strings (lines that are TLA+ strings holding JSON)."""
        out = []
        for line in self.stdout.splitlines():
            line = line.strip()
            if line.startswith('"{') or line.startswith('"['):
                try:
                    out.append(json.loads(json.loads(line)))
                except Exception:
                    pass
        return out


_RE_STATES = re.compile(
    r"(\d+) states generated, (\d+) distinct states found")
_RE_DEPTH = re.compile(r"The depth of the complete state graph search is (\d+)")
_RE_ACT = re.compile(
    r"^<(\w+) line \d+, col \d+ to line \d+, col \d+ of module (\w+)>: "
    r"(\d+):(\d+)\s*$")
_RE_INV = re.compile(r"Error: Invariant (\S+) is violated")
_RE_PROP = re.compile(r"Error: Action property (\S+) is violated|"
                      r"Error: Temporal properties were violated")


def tlc(spec, cfg, scratch, env=None, workers=None, simulate=None,
        depth=None, seed=None, extra=(), timeout=3600, coverage=True,
        jvm_opts=(), dfs=False):
    """Run TLC on `spec` (path relative to /verif/spec or absolute).

    Returns a TLCResult; raises MachineryError only if TLC could not be
    started or the spec did not parse.
    """
    spec = pathlib.Path(spec)
    if not spec.is_absolute():
        spec = SPEC / spec
    cfg = pathlib.Path(cfg)
    if not cfg.is_absolute():
        cfg = SPEC / "cfg" / cfg
    scratch = pathlib.Path(scratch)
    meta = pathlib.Path(tempfile.mkdtemp(prefix="tlcmeta_", dir=scratch))
    cmd = ["java", "-XX:+UseParallelGC", "-Xss16m",
           f"-Djava.io.tmpdir={scratch}"]
    if dfs:
        cmd.append("-Dtlc2.tool.queue.IStateQueue=StateDeque")
    cmd += list(jvm_opts)
    cmd += ["-cp", TLA_CP, "tlc2.TLC",
            "-workers", str(workers or min(NCPU, 16)),
            "-metadir", str(meta), "-noGenerateSpecTE",
            "-config", str(cfg)]
    if coverage:
        cmd += ["-coverage", "1"]
    if simulate:
        cmd += ["-simulate", simulate]
    if depth:
        cmd += ["-depth", str(depth)]
    if seed is not None:
        cmd += ["-seed", str(seed)]
    cmd += list(extra)
    cmd.append(str(spec))
    e = dict(os.environ)
    e.pop("JAVA_TOOL_OPTIONS", None)
    if env:
        e.update({k: str(v) for k, v in env.items()})
    res = TLCResult()
    res.cmd = " ".join(cmd)
    t0 = time.time()
    try:
        p = subprocess.run(cmd, cwd=str(spec.parent), env=e,
                           stdout=subprocess.PIPE, stderr=subprocess.STDOUT,
                           timeout=timeout, text=True, errors="replace")
    except subprocess.TimeoutExpired as exc:
        shutil.rmtree(meta, ignore_errors=True)
        raise MachineryError(f"TLC timed out after {timeout}s: {spec.name}") \
            from exc
    res.wall_s = time.time() - t0
    res.stdout = p.stdout
    res.returncode = p.returncode
    shutil.rmtree(meta, ignore_errors=True)
    for line in p.stdout.splitlines():
        m = _RE_STATES.search(line)
        if m:
            res.generated, res.distinct = int(m.group(1)), int(m.group(2))
        m = _RE_DEPTH.search(line)
        if m:
            res.depth = int(m.group(1))
        m = _RE_ACT.match(line)
        if m:
            res.actions[m.group(1)] = [int(m.group(3)), int(m.group(4))]
        m = _RE_INV.search(line)
        if m:
            res.violated = m.group(1).rstrip(".")
        m = _RE_PROP.search(line)
        if m and not res.violated:
            res.violated = (m.group(1) or "temporal").rstrip(".")
    if "Parsing or semantic analysis failed" in p.stdout \
            or "Error: TLC threw an unexpected exception" in p.stdout \
            or "*** Errors:" in p.stdout:
        raise MachineryError(
            f"TLC failed on {spec.name}/{cfg.name}:\n" + _tail(p.stdout, 60))
    if p.returncode != 0 and not res.violated:
        res.error = _tail(p.stdout, 40)
    return res


def _tail(text, n):
    lines = [ln for ln in text.splitlines()
             if not ln.startswith(("Parsing file", "Semantic processing",
                                   "Linting of"))]
    return "\n".join(lines[-n:])


def err_excerpt(stdout, n=2500):
    """the part of TLC's output that starts at the first error"""
    lines = [ln for ln in stdout.splitlines()
             if not ln.startswith(("Parsing file", "Semantic processing",
                                   "Linting of", '"{', "Computed "))]
    text = "\n".join(lines)
    i = text.find("Error:")
    return text[i:i + n] if i >= 0 else text[-n:]


def need_ok(res, what):
    """Design-level TLC run must pass; anything else is a machinery problem
    (the design spec is part of the framework, not of the code under test)."""
    if res.violated:
        raise MachineryError(
            f"{what}: design spec violates {res.violated}\n"
            + _tail(res.stdout, 60))
    if res.error:
        raise MachineryError(f"{what}: TLC error\n{res.error}")
    return res


def need_actions(res, names, what):
    """Vacuity control: every named action must have been taken."""
    missing = [n for n in names
               if n not in res.actions or res.actions[n][1] == 0]
    if missing:
        raise MachineryError(
            f"{what}: actions never taken (vacuous run): {missing}")


# --------------------------------------------------------------------------
# Check context
# --------------------------------------------------------------------------

class Ctx:
    def __init__(self, pid, tier, seed):
        self.pid = pid
        self.tier = tier
        self.seed = seed
        self.t0 = time.time()
        base = os.environ.get("VERIF_SCRATCH") or tempfile.gettempdir()
        self.scratch = pathlib.Path(tempfile.mkdtemp(
            prefix=f"nanite_verif_{pid}_", dir=base))
        # every temporary file of this process and of its workers lives in
        # the scratch directory, which is removed when the check ends
        os.environ["TMPDIR"] = str(self.scratch)
        tempfile.tempdir = str(self.scratch)
        self.candidates = []     # (fingerprint, what, replay_obj)
        self.notes = []
        self.known = load_known(pid)
        self.known_hit = {}
        self.coverage = {}
        self.assumptions = []
        self.level = "model_checking"
        self.tlc_states = 0
        self.tlc_transitions = 0
        self.traces = 0
        self.samples = []
        self.actions = {}

    # ---- TLC bookkeeping
    def add_tlc(self, res, label):
        self.tlc_states += res.distinct
        self.tlc_transitions += res.generated
        self.coverage.setdefault("tlc_runs", []).append({
            "label": label, "states": res.distinct,
            "transitions": res.generated, "depth": res.depth,
            "wall_s": round(res.wall_s, 2),
            "actions": {k: v[1] for k, v in res.actions.items()},
        })

    def sample(self, obj, limit=6):
        if len(self.samples) < limit:
            self.samples.append(jsonable(obj))

    # ---- violations
    def report(self, fingerprint, what, replay=None):
        """Register a candidate violation (deduplicated by fingerprint)."""
        for c in self.candidates:
            if c[0] == fingerprint:
                return
        self.candidates.append((fingerprint, what, replay))

    def note(self, text):
        self.notes.append(text)

    def finish(self):
        """Classify candidates, write evidence, print verdict lines, return
        the exit code."""
        unknown = []
        for fp, what, replay in self.candidates:
            k = match_known(self.known, fp)
            if k is not None:
                self.known_hit.setdefault(k["id"], []).append(fp)
            else:
                unknown.append((fp, what, replay))
        for k in self.known:
            if k["id"] in self.known_hit:
                print(f"KNOWN-FINDING: property={self.pid} {k['what']} "
                      f"[{k['id']}; {len(self.known_hit[k['id']])} case(s)]")
        rc = 0
        replay_dir = OUTDIR / "replays"
        replay_dir.mkdir(exist_ok=True, parents=True)
        for n, (fp, what, replay) in enumerate(unknown[:20]):
            path = replay_dir / f"{self.pid}-{n}.json"
            path.write_text(json.dumps(jsonable({
                "property": self.pid, "fingerprint": fp, "what": what,
                "replay": replay}), indent=1))
            print(f"VIOLATION property={self.pid} replay={path}")
            print(f"  what: {what}")
            print(f"  fingerprint: {fp}")
            rc = 1
        if len(unknown) > 20:
            print(f"  ... and {len(unknown) - 20} further violations")
        classes = {}
        for fp, _w, _r in unknown:
            key = "|".join(fp.split("|")[:2])
            classes[key] = classes.get(key, 0) + 1
        if classes:
            self.coverage["violations_by_class"] = classes
        self.write_evidence(len(unknown))
        shutil.rmtree(self.scratch, ignore_errors=True)
        return rc

    def write_evidence(self, nviol):
        cov = dict(self.coverage)
        cov.setdefault("states", max(self.tlc_states, 0))
        cov.setdefault("transitions", max(self.tlc_transitions, 0))
        cov.setdefault("traces_validated_against_impl", self.traces)
        cov["samples"] = self.samples or [{"note": "no sample recorded"}]
        cov["known_findings_matched"] = {
            k: len(v) for k, v in self.known_hit.items()}
        if self.notes:
            cov["notes"] = self.notes
        ev = {
            "property_id": self.pid,
            "tier": self.tier,
            "seed": int(self.seed),
            "level": self.level,
            "coverage": jsonable(cov),
            "assumptions": self.assumptions,
            "wall_s": round(time.time() - self.t0, 2),
            "violations": nviol,
        }
        out = OUTDIR / "evidence"
        out.mkdir(exist_ok=True, parents=True)
        (out / f"{self.pid}.json").write_text(json.dumps(ev, indent=1))


def load_known(pid):
    path = VERIF / "known_findings.json"
    if not path.exists():
        return []
    data = json.loads(path.read_text())
    return [k for k in data.get("findings", []) if k["property"] == pid]


def match_known(known, fp):
    for k in known:
        for pat in k["fingerprints"]:
            if fp == pat or fnmatch.fnmatchcase(fp, pat):
                return k
    return None


# --------------------------------------------------------------------------
# helpers
# --------------------------------------------------------------------------

def jsonable(o):
    import numpy as np
    if isinstance(o, dict):
        return {str(k): jsonable(v) for k, v in o.items()}
    if isinstance(o, (list, tuple, set, frozenset)):
        return [jsonable(v) for v in o]
    if isinstance(o, (np.bool_,)):
        return bool(o)
    if isinstance(o, np.integer):
        return int(o)
    if isinstance(o, np.floating):
        o = float(o)
    if isinstance(o, float):
        if o != o:
            return "NaN"
        if o in (float("inf"), float("-inf")):
            return "Infinity" if o > 0 else "-Infinity"
        return o
    if isinstance(o, np.ndarray):
        return jsonable(o.tolist())
    if isinstance(o, (str, int, bool)) or o is None:
        return o
    if isinstance(o, pathlib.Path):
        return str(o)
    return repr(o)


def digest(*arrays):
    import numpy as np
    h = hashlib.sha256()
    for a in arrays:
        a = np.ascontiguousarray(a)
        h.update(str(a.dtype).encode())
        h.update(str(a.shape).encode())
        h.update(a.tobytes())
    return h.hexdigest()[:16]


def write_json(path, obj):
    pathlib.Path(path).write_text(json.dumps(jsonable(obj)))
    return path


def main(run_funcs):
    """Entry point used by harness/check.py."""
    raise NotImplementedError
