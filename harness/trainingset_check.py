"""Harness for TrainingSet.tla (C15): every training matrix of the case
space is written as a real training-set directory and loaded with the real
IndentationRater.load_training_set; sample weights; export round trip."""
import concurrent.futures as cf
import fractions
import itertools
import json
import math
import pathlib
import random
import shutil
import tempfile
import warnings

import numpy as np

import vcommon

ALPHA = ["1", "2", "5", "nan", "inf", "-inf"]
NAMES = ["feat_con_idt_sum", "feat_con_apr_sum"]     # given UNsorted


def cell_json(tok):
    if tok in ("nan", "inf", "-inf"):
        return [tok, 0, 0]
    return ["num", int(tok), 1]


def out_cell(x):
    x = float(x)
    if math.isnan(x):
        return ["nan", 0, 0]
    if math.isinf(x):
        return ["inf" if x > 0 else "-inf", 0, 0]
    fr = fractions.Fraction(x).limit_denominator(1000)
    if abs(float(fr) - x) <= 1e-12 * max(1.0, abs(x)):
        return ["num", fr.numerator, fr.denominator]
    return ["num", 999983, 7]        # not a value the spec can produce


def case_space(nrows, tier, rng, full_flags):
    """(matrix by requested-name order, y, flags, name order)"""
    cells = list(itertools.product(ALPHA, repeat=2))
    mats = itertools.product(cells, repeat=nrows)
    ys = list(itertools.product([0, 4], repeat=nrows))
    for m in mats:
        for y in ys:
            yield m, y


def run_cases(job):
    cases, tmp = job
    from nanite.rate.rater import IndentationRater
    tmpd = pathlib.Path(tempfile.mkdtemp(prefix="c15_", dir=tmp))
    out = []
    for n, c in enumerate(cases):
        m, y, flags, order = c["m"], c["y"], c["flags"], c["order"]
        d = tmpd / f"ts{n % 50}"
        d.mkdir(exist_ok=True)
        names = [NAMES[i] for i in order]      # requested order
        # column j of the CASE matrix belongs to NAMES[j]
        for j, name in enumerate(NAMES):
            (d / f"train_{name}.txt").write_text(
                "\n".join(row[j] for row in m) + "\n")
        (d / "train_response.txt").write_text(
            "\n".join(str(v) for v in y) + "\n")
        rec = {"raised": "", "nout": 0, "outX": [[["num", 0, 1]]],
               "outy": [0],
               "names_sorted": True}
        try:
            with warnings.catch_warnings():
                warnings.simplefilter("ignore")
                X, yy, rn = IndentationRater.load_training_set(
                    path=d, names=list(names),
                    impute_zero_rated_nan=flags[0], remove_nan=flags[1],
                    replace_inf=flags[2], ret_names=True)
            X = np.atleast_2d(X)
            yy = np.atleast_1d(yy)
            rec["nout"] = int(X.shape[0])
            rec["names_sorted"] = list(rn) == sorted(NAMES)
            if X.shape[0]:
                rec["outX"] = [[out_cell(v) for v in row] for row in X]
                rec["outy"] = [int(v) if float(v).is_integer() else -1
                               for v in yy]
                if X.shape[1] != 2 or len(yy) != X.shape[0]:
                    rec["raised"] = "shape"
        except BaseException as exc:
            if isinstance(exc, (KeyboardInterrupt, SystemExit)):
                raise
            rec["raised"] = type(exc).__name__
        # the spec's matrix has its columns in SORTED name order
        srt = sorted(range(len(NAMES)), key=lambda j: NAMES[j])
        rec.update({"M": [[cell_json(row[j]) for j in srt] for row in m],
                    "y": list(y), "impute": bool(flags[0]),
                    "remove": bool(flags[1]), "replace": bool(flags[2])})
        out.append(rec)
    shutil.rmtree(tmpd, ignore_errors=True)
    return out


def weight_cases():
    from nanite.rate.rater import IndentationRater
    out = []
    for n, dt in [(n, dt) for n in range(1, 7)
                  for dt in ("float", "int64", "int16")]:
        # (responses arrive as floats from a text file, as integers from a
        # rating container or from a caller's own array)
        if dt != "float" and n > 5:
            continue
        for y in itertools.product([0, 3, 10], repeat=n):
            rec = {"y": list(y), "raised": "", "w": [[0, 1]] * n,
                   "dtype": dt}
            try:
                yy = list(y) if dt == "list" else np.array(y, dtype=dt)
                w = IndentationRater.compute_sample_weight(
                    np.zeros((n, 2)), yy)
                rec["w"] = [out_cell(v)[1:] if out_cell(v)[0] == "num"
                            else [999983, 7] for v in w]
            except BaseException as exc:
                if isinstance(exc, (KeyboardInterrupt, SystemExit)):
                    raise
                rec["raised"] = type(exc).__name__
            out.append(rec)
    return out


def same3(a, b):
    """a is b to the three significant digits of the text format (a more
    precise text format is just as good)"""
    a, b = float(a), float(b)
    if a == float(f"{b:.2e}") or a == b:
        return True
    return abs(a - b) <= 0.005 * abs(b)


def export_case(tmp):
    """export a rating container as training set and load it back"""
    import container_check as cc
    from nanite.rate import io as rio
    from nanite.rate.rater import IndentationRater
    tmpd = pathlib.Path(tempfile.mkdtemp(prefix="c15e_", dir=tmp))
    h5 = tmpd / "rate.h5"
    rec = {"raised": "", "features_ok": True, "responses_ok": True,
           "order_ok": True}
    try:
        order = [("B2", "f1", 7), ("A0", "f2", 0), ("B1", "f1", 3)]
        feats = []
        for cid, ftag, rating in order:
            idnt = cc.fitted(cid, ftag)
            with warnings.catch_warnings():
                warnings.simplefilter("ignore")
                rio.save_hdf5(h5, idnt, rating, "verif", "c")
                feats.append(IndentationRater.compute_features(idnt))
        with warnings.catch_warnings():
            warnings.simplefilter("ignore")
            rm = rio.RateManager(h5)
            # container order = order of the analysis groups in the file
            stored = [(r["enum"], r["rating"]) for r in rm.ratings]
            rm.export_training_set(tmpd / "ts_out")
            names = IndentationRater.get_feature_names()
            X, y = IndentationRater.load_training_set(
                tmpd / "ts_out", which_type="all", replace_inf=False,
                impute_zero_rated_nan=False, remove_nan=False)
        import h5py
        with h5py.File(h5, "r") as f:
            keys = list(f["analysis"].keys())
        by_key = {cc.idd(c): (feats[i], r)
                  for i, (c, _f, r) in enumerate(order)}
        want = [by_key[k] for k in keys]
        rec["order_ok"] = len(want) == X.shape[0]
        rec["responses_ok"] = [float(v) for v in y] == \
            [float(w[1]) for w in want]
        for i, (f, _r) in enumerate(want):
            for a, b in zip(X[i], f):
                # the text format keeps three significant digits
                if np.isnan(a) and np.isnan(b):
                    continue
                if not same3(a, b):
                    rec["features_ok"] = False
        # the container is re-rated on disk while the SAME manager object
        # lives on: a second export must hold the container's ratings
        newr = {"B2": 1, "A0": 9, "B1": 5}
        for cid, ftag, _r in order:
            with warnings.catch_warnings():
                warnings.simplefilter("ignore")
                rio.save_hdf5(h5, cc.fitted(cid, ftag), newr[cid],
                              "verif2", "again")
        with warnings.catch_warnings():
            warnings.simplefilter("ignore")
            rm.export_training_set(tmpd / "ts_out2")
            X2, y2 = IndentationRater.load_training_set(
                tmpd / "ts_out2", which_type="all", replace_inf=False,
                impute_zero_rated_nan=False, remove_nan=False)
        want2 = [float(newr[c]) for k in keys
                 for c in newr if cc.idd(c) == k]
        if [float(v) for v in y2] != want2:
            rec["responses_ok"] = False
        if X2.shape != X.shape or not np.array_equal(X2, X, equal_nan=True):
            rec["features_ok"] = False
        # a map whose curve numbers have different digit counts (2, 9, 10,
        # 100): the order of the entries in the file is not the order of
        # the curves in the map; every exported row still belongs to the
        # rating next to it
        import zipfile
        from nanite import IndentationGroup
        src = vcommon.REPO / "tests" / "data" / \
            "fmt-jpk-fd_map1d_2016-11-07.jpk-force-map"
        rename = {0: 2, 1: 9, 2: 10, 3: 100}
        rates = {2: 3, 9: 8, 10: 5, 100: 1}
        mpath = tmpd / "renumbered.jpk-force-map"
        with zipfile.ZipFile(src) as zi, zipfile.ZipFile(mpath, "w") as zo:
            for item in zi.infolist():
                name = item.filename
                if name.startswith("index/") and name != "index/":
                    parts = name.split("/")
                    if int(parts[1]) not in rename:
                        continue
                    parts[1] = str(rename[int(parts[1])])
                    name = "/".join(parts)
                zo.writestr(name, zi.read(item.filename))
        h5b = tmpd / "rate_map.h5"
        expected = {}
        with warnings.catch_warnings():
            warnings.simplefilter("ignore")
            for idnt in IndentationGroup(mpath):
                idnt.apply_preprocessing(list(cc.P1))
                idnt.fit_model(model_key="hertz_para")
                rio.save_hdf5(h5b, idnt, rates[idnt.enum], "verif", "")
                expected[rates[idnt.enum]] = \
                    IndentationRater.compute_features(idnt)
            with h5py.File(h5b, "r") as f:
                korder = [int(f["analysis"][k].attrs["user rate"])
                          for k in f["analysis"]]
            rio.RateManager(h5b).export_training_set(tmpd / "ts_map")
            Xm, ym = IndentationRater.load_training_set(
                tmpd / "ts_map", which_type="all", replace_inf=False,
                impute_zero_rated_nan=False, remove_nan=False)
        if Xm.shape[0] != len(rates) or [int(v) for v in ym] != korder:
            rec["order_ok"] = False
        for row, resp in zip(Xm, ym):
            wantf = expected.get(int(resp))
            if wantf is None:
                rec["responses_ok"] = False
                continue
            for a, b in zip(row, wantf):
                if np.isnan(a) and np.isnan(b):
                    continue
                if not same3(a, b):
                    rec["features_ok"] = False
        # a rating DIRECTORY with two containers that rated the same raw
        # curve with different fits: every exported row carries the
        # features of the fit that was rated
        ddir = tmpd / "two_containers"
        ddir.mkdir()
        exp2 = []
        with warnings.catch_warnings():
            warnings.simplefilter("ignore")
            for fname, ftag, rating in (("a.h5", "f1", 3), ("b.h5", "f2", 8)):
                idnt = cc.fitted("B1", ftag)
                rio.save_hdf5(ddir / fname, idnt, rating, "verif", "c")
                exp2.append((IndentationRater.compute_features(idnt),
                             rating))
            rio.RateManager(ddir).export_training_set(tmpd / "ts_two")
            X3, y3 = IndentationRater.load_training_set(
                tmpd / "ts_two", which_type="all", replace_inf=False,
                impute_zero_rated_nan=False, remove_nan=False)
        if X3.shape[0] != 2 or sorted(int(v) for v in y3) != [3, 8]:
            rec["order_ok"] = False
        else:
            for row, resp in zip(X3, y3):
                wantf = [f for f, r in exp2 if r == int(resp)][0]
                for a, b in zip(row, wantf):
                    if np.isnan(a) and np.isnan(b):
                        continue
                    if not same3(a, b):
                        rec["features_ok"] = False
    except BaseException as exc:
        if isinstance(exc, (KeyboardInterrupt, SystemExit)):
            raise
        import traceback
        rec["raised"] = type(exc).__name__ + ": " + str(exc)[:100]
    shutil.rmtree(tmpd, ignore_errors=True)
    return rec
