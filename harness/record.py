"""Passive recorder for repository-test trace validation (DESIGN.md 4.5 (3)).

When the environment variable NANITE_VERIF_RECORD names a directory, the
pytest plugin `verif_plugin` calls `install()`: the public calls of every
`nanite.Indentation` created by the tests are wrapped FROM THE OUTSIDE (no
source hook) and logged with a picklable observation of the object after the
call.  Nothing is judged inside the test process; classification against the
fresh-object oracle and validation by TLC happen afterwards
(`rectrace.build_traces`).
"""
import copy
import os
import pathlib
import pickle
import warnings

import numpy as np

RECORDS = []
_DEPTH = [0]
_FP_OWNER = {}


def _snap(val):
    try:
        return copy.deepcopy(val)
    except Exception:
        return repr(val)


def install(outdir):
    import curve_exec
    import oracle as orc
    from nanite import indent, fit
    counter = curve_exec.OptCounter.install()
    Ind = indent.Indentation
    orig_init = Ind.__init__

    def observe(self):
        rec = self.__dict__.get("_verif_rec")
        with warnings.catch_warnings():
            warnings.simplefilter("ignore")
            return curve_exec.observe_state(self, rec["raw0"])

    def init(self, *a, **k):
        orig_init(self, *a, **k)
        try:
            rec = {"path": str(self.path), "enum": int(self.enum),
                   "raw0": orc.raw_digest(self), "events": [],
                   "test": os.environ.get("PYTEST_CURRENT_TEST", "")}
            self.__dict__["_verif_rec"] = rec
            rec["init"] = observe(self)
            _FP_OWNER[id(self._fit_properties)] = self
            RECORDS.append(rec)
        except Exception as exc:       # never disturb the test
            self.__dict__["_verif_rec"] = None
    Ind.__init__ = init

    def wrap(name, describe):
        orig = getattr(Ind, name)

        def wrapper(self, *a, **k):
            rec = self.__dict__.get("_verif_rec")
            if rec is None or _DEPTH[0] > 0:
                return orig(self, *a, **k)
            ev = {"op": name, "out": "ok", "exc": "", "test":
                  os.environ.get("PYTEST_CURRENT_TEST", "")}
            try:
                ev.update(describe(self, a, k))
                args = [v for v in list(a) + list(k.values())
                        if v is not None]
                snaps = [curve_exec.snapshot_arg(v) for v in args]
            except Exception as exc:
                ev["describe_error"] = repr(exc)
                args, snaps = [], []
            counter.n = 0
            _DEPTH[0] += 1
            try:
                return orig(self, *a, **k)
            except BaseException as exc:
                ev["out"] = "raise"
                ev["exc"] = type(exc).__name__
                raise
            finally:
                _DEPTH[0] -= 1
                try:
                    ev["nopt"] = int(counter.n)
                    ev["argsame"] = all(
                        curve_exec.snapshot_arg(v) == s
                        for v, s in zip(args, snaps))
                    ev["post"] = observe(self)
                    rec["events"].append(ev)
                except Exception as exc:
                    rec["events"].append({"op": "foreign",
                                          "why": repr(exc)})
        setattr(Ind, name, wrapper)

    def d_apply(self, a, k):
        pre = k.get("preprocessing", a[0] if a else None)
        opts = k.get("options", a[1] if len(a) > 1 else None)
        if pre is None:
            pre = self.preprocessing
        if opts is None:
            opts = self.preprocessing_options
        cur = self.fit_properties
        return {"steps": _snap(list(pre)), "opts": _snap(dict(opts)),
                "ret_details": bool(k.get("ret_details", False)),
                "had_pre": "preprocessing" in cur,
                "cur_pipe": (_snap(cur.get("preprocessing")),
                             _snap(cur.get("preprocessing_options")))}

    def d_fit(self, a, k):
        cur = self.fit_properties
        return {"kw": {kk: _snap(v) for kk, v in k.items()},
                "stored": {kk: _snap(cur[kk]) for kk in k if kk in cur},
                "cur_pipe": (_snap(cur.get("preprocessing")),
                             _snap(cur.get("preprocessing_options"))),
                "attr_opts": _snap(dict(self.preprocessing_options)),
                "attr_steps": _snap(list(self.preprocessing))}

    def d_rate(self, a, k):
        names = ["regressor", "training_set", "names", "lda"]
        d = {"regressor": "Extra Trees", "training_set": "zef18",
             "names": None, "lda": None}
        for n, v in zip(names, a):
            d[n] = v
        d.update({kk: v for kk, v in k.items() if kk in names})
        return {"rater": {kk: _snap(v) for kk, v in d.items()}}

    def d_none(self, a, k):
        return {"args": [repr(v)[:80] for v in a],
                "kwargs": {kk: repr(v)[:80] for kk, v in k.items()}}

    def d_getinit(self, a, k):
        mk = k.get("model_key", a[0] if a else None)
        return {"model_key": mk}
    wrap("apply_preprocessing", d_apply)
    wrap("fit_model", d_fit)
    wrap("rate_quality", d_rate)
    wrap("compute_emodulus_mindelta", d_none)
    wrap("get_initial_fit_parameters", d_getinit)

    # direct edits of the settings, outside of any wrapped call
    FP = fit.FitProperties
    orig_set = FP.__setitem__

    def fp_setitem(self, key, value):
        owner = _FP_OWNER.get(id(self))
        rec = owner.__dict__.get("_verif_rec") if owner is not None else None
        if rec is None or _DEPTH[0] > 0:
            return orig_set(self, key, value)
        ev = {"op": "set", "key": key, "val": _snap(value), "out": "ok",
              "exc": "", "had": key in self,
              "stored": _snap(self[key]) if key in self else None,
              "test": os.environ.get("PYTEST_CURRENT_TEST", "")}
        snap = curve_exec.snapshot_arg(value)
        _DEPTH[0] += 1
        try:
            return orig_set(self, key, value)
        except BaseException as exc:
            ev["out"] = "raise"
            ev["exc"] = type(exc).__name__
            raise
        finally:
            _DEPTH[0] -= 1
            try:
                ev["nopt"] = 0
                ev["argsame"] = curve_exec.snapshot_arg(value) == snap
                ev["post"] = observe(owner)
                rec["events"].append(ev)
            except Exception as exc:
                rec["events"].append({"op": "foreign", "why": repr(exc)})
    FP.__setitem__ = fp_setitem

    # anything else that changes the object behind the library's back ends
    # the validated prefix of the trace
    def foreign(name, klass):
        orig = getattr(klass, name)

        def w(self, *a, **k):
            owner = self if isinstance(self, Ind) else _FP_OWNER.get(id(self))
            rec = owner.__dict__.get("_verif_rec") \
                if owner is not None else None
            if rec is not None and _DEPTH[0] == 0:
                rec["events"].append({"op": "foreign",
                                      "why": f"{klass.__name__}.{name}"})
            return orig(self, *a, **k)
        setattr(klass, name, w)
    foreign("__setitem__", Ind)            # idnt["force"] = ...
    for name in ("update", "pop", "reset", "restore", "clear",
                 "__delitem__", "setdefault"):
        if hasattr(FP, name):
            foreign(name, FP)
    prop = Ind.fit_properties

    def fp_setter(self, fp):
        rec = self.__dict__.get("_verif_rec")
        if rec is not None and _DEPTH[0] == 0:
            rec["events"].append({"op": "foreign",
                                  "why": "fit_properties setter"})
        return prop.fset(self, fp)
    Ind.fit_properties = property(prop.fget, fp_setter)
    global _OUT
    _OUT = pathlib.Path(outdir)


_OUT = None


def dump():
    if _OUT is None:
        return
    _OUT.mkdir(parents=True, exist_ok=True)
    out = _OUT / f"records_{os.getpid()}.pkl"
    with out.open("wb") as fh:
        pickle.dump(RECORDS, fh)
