"""Turn TLC's labelled state graph (-dump dot,actionlabels) into walks from
the initial state that cover every edge (transition tour), and translate the
action labels of Curve.tla into executor operations."""
import collections
import random
import re

_NODE = re.compile(r'^(-?\d+) \[label="(.*)"(,style = filled)?\]\s*;?\s*$')
_EDGE = re.compile(r'^(-?\d+) -> (-?\d+) \[label="(.*)",color=')


def parse_dot(path):
    nodes, edges, init = {}, [], None
    with open(path) as fh:
        for line in fh:
            m = _EDGE.match(line)
            if m:
                edges.append((m.group(1), m.group(2),
                              m.group(3).replace('\\"', '"')))
                continue
            m = _NODE.match(line)
            if m:
                nodes[m.group(1)] = True
                if m.group(3) and init is None:
                    init = m.group(1)
    return init, nodes, edges


def tour(init, edges, maxlen=12, rng=None, limit=None):
    """Greedy transition tour: walks (lists of labels) from `init`, each at
    most `maxlen` long, that together cover every edge (or `limit` walks)."""
    rng = rng or random.Random(0)
    out = collections.defaultdict(list)
    for idx, (u, v, lab) in enumerate(edges):
        out[u].append((v, lab, idx))
    # BFS tree
    parent = {init: None}
    dq = collections.deque([init])
    while dq:
        u = dq.popleft()
        for v, lab, idx in out[u]:
            if v not in parent:
                parent[v] = (u, lab, idx)
                dq.append(v)

    def path_to(u):
        p = []
        while parent[u] is not None:
            pu, lab, idx = parent[u]
            p.append((lab, idx))
            u = pu
        return p[::-1]

    depth = {u: len(path_to(u)) for u in parent}
    uncovered = set(range(len(edges)))
    order = sorted(uncovered, key=lambda i: (depth.get(edges[i][0], 99),
                                             rng.random()))
    walks = []
    for idx in order:
        if idx not in uncovered:
            continue
        u, v, lab = edges[idx]
        if u not in parent:
            continue
        walk = path_to(u)
        if len(walk) >= maxlen:
            continue
        walk.append((lab, idx))
        cur = v
        while len(walk) < maxlen:
            cands = [(w, lab2, i2) for (w, lab2, i2) in out[cur]
                     if i2 in uncovered and i2 not in {i for _, i in walk}]
            if not cands:
                # hop (shortest path within the remaining budget) to the
                # nearest state that still has an uncovered outgoing edge
                used = {i for _, i in walk}
                hop = _nearest(out, cur, uncovered - used,
                               maxlen - len(walk) - 1)
                if not hop:
                    break
                for (w, lab2, i2) in hop:
                    walk.append((lab2, i2))
                    cur = w
                continue
            # prefer edges that change the state, keep some self loops
            moving = [c for c in cands if c[0] != cur]
            pick = rng.choice(moving if moving and rng.random() < .7
                              else cands)
            walk.append((pick[1], pick[2]))
            cur = pick[0]
        for _, i in walk:
            uncovered.discard(i)
        walks.append([lab for lab, _ in walk])
        if limit and len(walks) >= limit:
            break
    return walks, len(edges) - len(uncovered)


def _nearest(out, start, wanted, budget):
    if budget <= 0:
        return None
    seen = {start: None}
    dq = collections.deque([(start, 0)])
    while dq:
        u, d = dq.popleft()
        if u != start and any(i in wanted for (_, _, i) in out[u]):
            path = []
            while seen[u] is not None:
                pu, lab, idx = seen[u]
                path.append((u, lab, idx))
                u = pu
            return path[::-1]
        if d >= budget:
            continue
        for (w, lab, idx) in out[u]:
            if w not in seen:
                seen[w] = (u, lab, idx)
                dq.append((w, d + 1))
    return None


# --------------------------------------------------------------------------
_ARG = re.compile(r'"([^"]*)"')


def label_to_op(label):
    """Curve.tla action label -> executor op (see curve_exec.Executor)."""
    name = label.split("(")[0]
    a = _ARG.findall(label)
    if name == "MutatePL":
        return {"op": "mutate_pl", "pipe": a[0]}
    if name == "MutatePI":
        return {"op": "mutate_pi", "val": a[0]}
    if name == "ApplyPre":
        return {"op": "apply", "pipe": a[0], "via": a[1]}
    if name == "SetKey":
        return {"op": "set", "key": a[0], "val": a[1], "via": a[2]}
    if name == "SetUnknown":
        return {"op": "set_unknown"}
    if name in ("Fit0", "Fit"):
        return {"op": "fit", "kw": {}}
    if name == "Fit1":
        return {"op": "fit", "kw": {a[0]: a[1]}, "via": a[2]}
    if name == "Fit2":
        return {"op": "fit", "kw": {a[0]: a[1], a[2]: a[3]}}
    if name == "FitPre":
        return {"op": "fit", "kw": {}, "pipe": a[0], "via_pl": a[1]}
    if name == "FitPre1":
        return {"op": "fit", "kw": {a[1]: a[2]}, "pipe": a[0]}
    if name == "FitUnknown":
        return {"op": "fit_unknown", "kw": {}}
    if name == "Scan":
        return {"op": "scan"}
    if name == "GetInit":
        return {"op": "getinit"}
    if name == "Rate":
        return {"op": "rate", "rater": a[0]}
    if name == "Around":
        return {"op": a[0], "rater": a[1]}
    raise ValueError(f"unknown action label {label!r}")
