"""Driver for the FitPasses.tla family (C04, C05, C11): configuration
lattices, execution of real fits under the pass recorder, validation of the
records by TLC (FitPassesTrace.tla)."""
import concurrent.futures as cf
import itertools
import json
import random
import warnings

import numpy as np

import vcommon
from vcommon import MachineryError

MODELS = ["hertz_para", "hertz_cone", "hertz_pyr3s", "sneddon_spher_approx",
          "power_layer_clifford_2009"]
POWER = {"hertz_para", "hertz_cone", "hertz_pyr3s"}
P1 = ["compute_tip_position", "correct_force_offset", "correct_tip_offset"]
# without the tip-offset correction the contact point lies far from the
# origin of the abscissa (micrometres): unit-frame slips of the contact
# point become visible
P0 = ["compute_tip_position", "correct_force_offset"]


# --------------------------------------------------------------------------
# curves
# --------------------------------------------------------------------------
def rank_curve(n_app, n_ret, n_mid=0):
    """tiny noise-free curve on an exact binary grid with an innate
    'tip position' column (no preprocessing needed): interval bounds can be
    placed exactly on / between samples"""
    import pathlib
    from nanite import Indentation
    import synth
    m = max(n_app, n_ret, n_mid)
    g = (np.arange(m) - 2) * 2.0 ** -23          # ascending grid
    # optional third segment (index 1, e.g. a pause) between approach (0)
    # and retract (then index 2)
    tip = np.concatenate([g[:n_app][::-1], g[:n_mid], g[:n_ret]])
    f = synth.model_force("hertz_para", tip,
                          dict(E=3000., R=10e-6, nu=.5, contact_point=0.,
                               baseline=0.))
    seg = np.concatenate([np.zeros(n_app, np.uint8),
                          np.ones(n_mid, np.uint8),
                          np.full(n_ret, 2 if n_mid else 1, np.uint8)])
    data = {"force": f, "tip position": tip, "height (measured)": tip - f / .05,
            "time": np.arange(tip.size) * 1e-3, "segment": seg}
    meta = {"path": pathlib.Path("/synthetic/rank.h5"), "enum": 0,
            "spring constant": .05, "imaging mode": "force-distance",
            "point count": int(tip.size)}
    return Indentation(data, meta), g


def rank_to_float(g, r):
    m = len(g)
    if r <= 1:
        return g[0] - 2.0 ** -25
    if r >= 2 * m + 1:
        return g[-1] + 2.0 ** -25
    if r % 2 == 0:
        return float(g[r // 2 - 1])
    return float((g[(r - 1) // 2 - 1] + g[(r + 1) // 2 - 1]) / 2)


def make_fit_curve(cfg):
    import synth
    if cfg["curve"] == "rec1":
        idnt = synth.load_recorded("fmt-jpk-fd_spot3-0192.jpk-force")
    else:
        idnt = synth.make_curve(n_app=cfg.get("n_app", 300),
                                n_ret=cfg.get("n_ret", 300),
                                model_key=cfg["gen_model"],
                                noise=cfg.get("noise", 0.), seed=7,
                                depth=cfg.get("depth", 1e-6))
    with warnings.catch_warnings():
        warnings.simplefilter("ignore")
        idnt.apply_preprocessing(list(P1))
        if cfg.get("pipe") == "P0":
            t1 = np.array(idnt["tip position"], copy=True)
            idnt.apply_preprocessing(list(P0))
            # where the tip-offset correction would have put the origin
            cfg["_off"] = float(np.asarray(idnt["tip position"])[0] - t1[0])
    return idnt


def shifted(cfg, iv):
    off = cfg.get("_off", 0.)
    return [float(v) + off for v in iv]


def make_params(cfg, idnt):
    from nanite import model
    md = model.models_available[cfg["model"]]
    with warnings.catch_warnings():
        warnings.simplefilter("ignore")
        params = idnt.get_initial_fit_parameters(model_key=cfg["model"])
    ekey = "E" if "E" in params else "E_S"
    off = cfg.get("_off", 0.)
    if cfg.get("cp_init") is not None or off:
        params["contact_point"].set(value=(cfg.get("cp_init") or 0.) + off)
    pat = cfg.get("vary", "default")
    if pat == "fixE":
        params[ekey].set(vary=False)
    elif pat == "fixcp":
        params["contact_point"].set(vary=False)
    elif pat == "fixbl":
        params["baseline"].set(vary=False)
    elif pat == "boundE":
        # upper bound below the true modulus: the bound becomes active
        params[ekey].set(value=500., max=1000.)
    elif pat == "expr":
        params["baseline"].set(expr="0*contact_point")
    elif pat == "exprE":
        # an expression that follows a varied parameter, with finite
        # (inactive) bounds of its own
        params["baseline"].set(expr=f"{ekey}*1e-15", min=-1e-9, max=1e-9)
    elif pat == "exprEL" and "E_L" in params:
        params["E_L"].set(expr="E_S/100")
    elif pat == "cpbound":
        # finite bounds on the contact point that stay inactive
        cpv = params["contact_point"].value
        params["contact_point"].set(min=cpv - 4e-6, max=cpv + 4e-6)
    elif pat == "cpactive":
        # a lower bound on the contact point that the fit runs into
        cpv = params["contact_point"].value
        params["contact_point"].set(value=cpv + 2e-7, min=cpv + 1e-7,
                                    max=cpv + 4e-6)
    elif pat == "varyR" and "R" in params:
        params["R"].set(vary=True, min=1e-6, max=1e-4)
    return params


def nudged(params, cfg):
    """the parameters of the preceding fit: a fixed parameter differs from
    the requested one by an amount that is tiny in SI units (0.2 nN, 3 nm,
    1e-6 relative) -- still another request"""
    if not cfg.get("prefit_p"):
        return params
    for name, d in (("baseline", 2e-10), ("contact_point", 3e-9)):
        if name in params and not params[name].vary and not params[name].expr:
            params[name].set(value=params[name].value + d)
    for name in ("E", "E_S", "R"):
        if name in params and not params[name].vary:
            params[name].set(value=params[name].value * (1 + 1e-6))
    return params


def few_points_interval(idnt, segment, npts, axis="tip position"):
    """an absolute interval that contains exactly `npts` samples of the
    segment, deepest first"""
    x = np.asarray(idnt[axis])[np.asarray(idnt["segment"]) == segment]
    xs = np.sort(x)
    if npts <= 0:
        return [float(xs[0]) - 2e-9, float(xs[0]) - 1e-9]
    return [float(xs[0]), float(xs[npts - 1])]


# --------------------------------------------------------------------------
# one configuration -> records
# --------------------------------------------------------------------------
_NCALLS = [0]


def run_config(cfg):
    import fitpasses
    out = {"cfg": cfg, "fits": [], "pairs": []}
    _NCALLS[0] += 1
    if _NCALLS[0] % 40 == 1:
        # process-state sentinel between the configurations of this worker
        try:
            import curve_check
            out["sentinel"] = curve_check.sentinel()
        except BaseException as exc:
            if isinstance(exc, (KeyboardInterrupt, SystemExit)):
                raise
            out["sentinel"] = {"raised": type(exc).__name__}
    try:
        if cfg["kind"] == "rank":
            idnt, g = rank_curve(cfg["n_app"], cfg["n_ret"],
                                 cfg.get("n_mid", 0))
            rx = [rank_to_float(g, cfg["lo"]), rank_to_float(g, cfg["hi"])]
            kw = dict(model_key="hertz_para", segment=cfg["segment"],
                      range_type="absolute", range_x=rx, weight_cp=0)
            rec = fitpasses.observe_fit(idnt, kw, label=json.dumps(cfg))
            # the requested ranks must be reproduced by the projection
            rec["_want"] = [min(cfg["lo"], cfg["hi"]), max(cfg["lo"], cfg["hi"])]
            out["fits"].append(rec)
            return out
        idnt = make_fit_curve(cfg)
        if cfg.get("x_axis"):
            # where the contact is on this abscissa
            seg0 = np.asarray(idnt["segment"]) == 0
            tipa = np.asarray(idnt["tip position"])[seg0]
            cfg["_off"] = float(np.asarray(idnt[cfg["x_axis"]])[seg0][
                int(np.argmin(np.abs(tipa)))])
        kw = dict(model_key=cfg["model"], segment=cfg["segment"],
                  weight_cp=cfg["weight_cp"], gcf_k=cfg["k"],
                  params_initial=make_params(cfg, idnt))
        if cfg.get("x_axis"):
            kw["x_axis"] = cfg["x_axis"]
        mode = cfg["mode"]
        if mode == "abs":
            iv = cfg["interval"]
            if isinstance(iv, str) and iv.startswith("few"):
                kw["range_x"] = few_points_interval(
                    idnt, cfg["segment"], int(iv[3:]),
                    cfg.get("x_axis") or "tip position")
            else:
                kw["range_x"] = shifted(cfg, iv) if iv[0] != iv[1] \
                    else list(iv)
            kw["range_type"] = "absolute"
        elif mode == "rel":
            kw["range_type"] = "relative cp"
            kw["range_x"] = list(cfg["interval"])
        else:
            kw["range_type"] = "absolute"
            kw["range_x"] = list(cfg["interval"])
            if cfg["interval"][0] != cfg["interval"][1]:
                kw["range_x"] = shifted(cfg, cfg["interval"])
            kw["optimal_fit_edelta"] = True
            kw["optimal_fit_num_samples"] = cfg["nsamp"]
        if cfg.get("method"):
            kw["method"] = cfg["method"]
        if cfg.get("post") in ("scan", "estimate"):
            kw["optimal_fit_num_samples"] = 6
        if cfg.get("prefit") and mode == "abs" and \
                all(np.isfinite(kw["range_x"])):
            # a first fit on the SAME object with a near-by interval: the
            # recorded fit must not inherit anything from it
            near = [kw["range_x"][0] - cfg["prefit"],
                    kw["range_x"][1] + cfg["prefit"]]
            if cfg.get("prefit_p"):
                # (only the fixed parameter differs, by a tiny amount)
                near = list(kw["range_x"])
            try:
                with warnings.catch_warnings():
                    warnings.simplefilter("ignore")
                    # (also another weighting distance: whatever survives
                    # from this fit is then visibly not the requested one)
                    idnt.fit_model(**dict(kw, range_x=near,
                                          weight_cp=((0 if cfg["weight_cp"]
                                                      else 5e-7)
                                                     if cfg.get("prefit_w")
                                                     else cfg["weight_cp"]),
                                          params_initial=nudged(
                                              make_params(cfg, idnt), cfg)))
            except BaseException as exc:
                if isinstance(exc, (KeyboardInterrupt, SystemExit)):
                    raise
        rec = fitpasses.observe_fit(idnt, kw, label=json.dumps(cfg),
                                    post=cfg.get("post"),
                                    fault=bool(cfg.get("fault")))
        out["fits"].append(rec)
        # (pairs are built from plain fits only: no operation in between)
        if cfg.get("pair") and not rec["raised"] and cfg["k"] != 1 \
                and not cfg.get("post"):
            cfg1 = dict(cfg, k=1.0)
            idnt1 = make_fit_curve(cfg1)
            kw1 = dict(kw, gcf_k=1.0,
                       params_initial=make_params(cfg1, idnt1))
            rec1 = fitpasses.observe_fit(idnt1, kw1, label="k=1 twin")
            if not rec1["raised"]:
                q = fitpasses.pair_record(rec, rec1, cfg["model"], idnt,
                                          idnt1,
                                          noise_free=not cfg.get("noise"))
                if q is not None:
                    out["pairs"].append(dict(q, label=json.dumps(cfg)))
                else:
                    out["pairs_skipped"] = 1
    except BaseException as exc:    # harness trouble is reported, not hidden
        if isinstance(exc, (KeyboardInterrupt, SystemExit)):
            raise
        import traceback
        out["error"] = traceback.format_exc()
    return out


# --------------------------------------------------------------------------
# lattices
# --------------------------------------------------------------------------
def rank_lattice(tier, rng):
    cfgs = []
    layouts = [(6, 6), (9, 5), (5, 9)] if tier == "thorough" else [(6, 6), (7, 4)]
    for n_app, n_ret in layouts:
        m = max(n_app, n_ret)
        ranks = range(1, 2 * m + 2)
        for seg in (0, 1):
            for lo, hi in itertools.product(ranks, ranks):
                cfgs.append(dict(kind="rank", n_app=n_app, n_ret=n_ret,
                                 segment=seg, lo=lo, hi=hi))
    # curves with three segments (approach, pause, retract): every segment
    # index can be requested
    lay3 = [(5, 4, 6), (6, 6, 4)] if tier == "thorough" else [(5, 4, 6)]
    for n_app, n_mid, n_ret in lay3:
        m = max(n_app, n_mid, n_ret)
        ranks = list(range(1, 2 * m + 2))
        for seg in (0, 1, 2):
            pairs = list(itertools.product(ranks, ranks))
            if tier != "thorough":
                pairs = [(r, r) for r in ranks[:3]] + rng.sample(pairs, 60)
            for lo, hi in pairs:
                cfgs.append(dict(kind="rank", n_app=n_app, n_mid=n_mid,
                                 n_ret=n_ret, segment=seg, lo=lo, hi=hi))
    return cfgs


INTERVALS_ABS = [[0, 0], [-5e-7, 1e-7], [-np.inf, -1e-7], [-2e-7, np.inf],
                 [2e-7, -6e-7], "few3", "few4", "few5", "few6", "few0",
                 [1.0, 2.0]]
INTERVALS_REL = [[-4e-7, 2e-7], [-8e-7, 5e-7], [-1e-12, 1e-12], [3e-7, -3e-7]]


def fit_lattice(tier, rng, focus):
    """pairwise-style sample of the configuration product; `focus` biases
    towards the property at hand ('C04' relations, 'C05' masks/passes,
    'C11' correction factor)"""
    n = {"quick": 220, "thorough": 2200}[tier]
    cfgs = []
    ks = [1.0, .5, .25, .6135, 2.0]
    for i in range(n):
        model = rng.choice(MODELS)
        if focus == "C11":
            model = rng.choice(sorted(POWER))
        curve = "rec1" if rng.random() < .15 else "syn"
        mode = rng.choices(["abs", "rel", "edelta"],
                           [5, 3, 1.2 if tier == "quick" else 2])[0]
        seg = rng.choice([0, 0, 1])
        if mode == "edelta":
            seg = 0
        noise = rng.choice([0., 0., 3e-11])
        k = rng.choice(ks if focus == "C11" else [1.0, 1.0, .5, .25, .6135])
        cfg = dict(kind="fit", curve=curve, gen_model=model, model=model,
                   segment=seg, mode=mode, noise=noise, k=k,
                   weight_cp=rng.choice([0, 5e-7, 1e-6]),
                   vary=rng.choice(["default", "default", "fixE", "fixcp",
                                    "fixbl", "boundE", "expr", "varyR",
                                    "exprE", "exprEL", "cpbound",
                                    "cpactive"]),
                   cp_init=rng.choice([None, 1e-7, -5e-8]),
                   n_app=rng.choice([300, 300, 700]))
        if mode == "abs":
            cfg["interval"] = rng.choice(INTERVALS_ABS)
        elif mode == "rel":
            cfg["interval"] = rng.choice(INTERVALS_REL)
        else:
            cfg["interval"] = rng.choice([[0, 0], [-np.inf, 2e-7],
                                          [2e-7, -np.inf], [-5e-7, 1e-7],
                                          # upper bound inside the scanned
                                          # depths (given either way round)
                                          [-np.inf, -7e-8], [-7e-8, -1.0],
                                          [-3e-7, -np.inf]])
            cfg["nsamp"] = rng.choice([8, 10])
        if mode != "edelta" and rng.random() < (.5 if focus == "C11" else .25):
            cfg["pipe"] = "P0"
        if mode != "edelta" and rng.random() < (.3 if focus in ("C04", "C05")
                                                else .1):
            # something else happens between the fit and the inspection
            cfg["post"] = rng.choice(["scan", "estimate", "rate", "refit",
                                      "initparams", "ancillaries", "scan2",
                                      "scan2"])
        if rng.random() < .1:
            cfg["method"] = "nelder"
        if mode == "abs" and rng.random() < .3:
            cfg["prefit"] = rng.choice([8e-9, 3e-9, 5e-8])
            # (the first fit differs in the interval only, or also in the
            # weighting distance)
            cfg["prefit_w"] = rng.random() < .5
            cfg["prefit_p"] = cfg["vary"] in ("fixE", "fixcp", "fixbl") \
                and not cfg["prefit_w"]
            if rng.random() < .5:
                cfg["fault"] = True
        elif rng.random() < .08:
            cfg["fault"] = True
        if mode != "edelta" and not cfg.get("pipe") and rng.random() < \
                (.3 if focus == "C11" else .1):
            # another abscissa (legal; the contact point is far from zero)
            cfg["x_axis"] = "height (measured)"
            if mode == "abs":
                cfg["interval"] = rng.choice([[0, 0], "few5", "few6"])
        if focus == "C11" or rng.random() < .25:
            # k-equivalence is owed exactly for noise-free data, and for
            # noisy data with contact-point weighting off
            if model in POWER and cfg["vary"] in ("default", "fixbl",
                                                  "cpbound") \
                    and cfg.get("method") is None and curve == "syn":
                cfg["pair"] = True
                cfg["weight_cp"] = 0
                if mode == "edelta" or (noise and mode == "rel"):
                    cfg["pair"] = False
        cfgs.append(cfg)
    return cfgs


# --------------------------------------------------------------------------
def execute(cfgs, nproc=None):
    nproc = nproc or min(vcommon.NCPU, 16)
    with cf.ProcessPoolExecutor(max_workers=nproc) as pool:
        return list(pool.map(run_config, cfgs, chunksize=8))


SENTINEL_FAILED = []


def validate(ctx, fits, pairs, label, batch=1500, sentinels=()):
    import fitpasses
    failed_f, failed_p = {}, {}
    fields = sorted({k for sd in sentinels for k in sd}) or ["pad"]
    sent = [{k: sd.get(k, "missing") for k in fields}
            for sd in sentinels] or [{"pad": "pad"}]
    states = 0
    pad_pair = {"cp_same": True, "bl_same": True, "fit_same": True,
                "xminmax_same": True, "e_scaled": True, "mask_same": True}
    for b0 in range(0, max(len(fits), 1), batch):
        chunk = fits[b0:b0 + batch]
        if not chunk:
            break
        path = ctx.scratch / f"fit_batch_{label}_{b0}.json"
        prs = [{k: v for k, v in p.items() if k != "label"}
               for p in pairs] if b0 == 0 else []
        path.write_text(json.dumps(vcommon.jsonable(
            {"fits": [fitpasses.slim_for_tlc(r) for r in chunk],
             "pairs": prs or [pad_pair],
             "sentinels": sent if b0 == 0 else [{"pad": "pad"}]})))
        res = vcommon.tlc("FitPassesTrace.tla", "FitPassesTrace.cfg",
                          ctx.scratch, env={"TRACE_FILE": path}, workers=1,
                          coverage=False, timeout=3600, jvm_opts=["-Xmx8g"])
        path.unlink()
        if res.violated or res.error:
            raise MachineryError("FitPassesTrace failed:\n"
                                 + vcommon.err_excerpt(res.stdout))
        states += res.distinct
        for obj in res.printed():
            if "fit" in obj:
                failed_f[b0 + obj["fit"] - 1] = sorted(obj["failed"])
            elif "pair" in obj and b0 == 0 and prs:
                failed_p[obj["pair"] - 1] = sorted(obj["failed"])
            elif "sentinel_fields" in obj:
                SENTINEL_FAILED[:] = sorted(obj["sentinel_fields"])
    return failed_f, failed_p, states


def run_engine(ctx, prefix, focus, with_ranks):
    rng = random.Random(ctx.seed * 104729 + 7)
    # design: pass structure state machine
    res = vcommon.tlc("FitPasses.tla", "FitPasses.cfg", ctx.scratch)
    vcommon.need_ok(res, "FitPasses design")
    vcommon.need_actions(res, ["Pass", "WriteBack"], "FitPasses design")
    ctx.add_tlc(res, "FitPasses.tla pass-structure design")
    cfgs = fit_lattice(ctx.tier, rng, focus)
    if with_ranks:
        cfgs = rank_lattice(ctx.tier, rng) + cfgs
    results = execute(cfgs)
    errs = [r for r in results if r.get("error")]
    if errs:
        raise MachineryError("harness error while fitting:\n"
                             + errs[0]["error"])
    fits, pairs, raised = [], [], {}
    for r in results:
        for rec in r["fits"]:
            if rec["raised"] or "mode" not in rec:
                raised[rec["raised"] or "no result"] = \
                    raised.get(rec["raised"] or "no result", 0) + 1
                continue
            rec["cfg"] = r["cfg"]
            fits.append(rec)
        for p in r["pairs"]:
            p["cfg"] = r["cfg"]
            pairs.append(p)
    # vacuity guard: when most calls raise, nothing was examined
    nfitcfg = sum(1 for c in cfgs if c["kind"] == "fit")
    nfitrec = sum(1 for r in fits if r["cfg"]["kind"] == "fit")
    if nfitrec < .6 * nfitcfg:
        raise MachineryError(
            f"only {nfitrec} of {nfitcfg} fit configurations produced a "
            f"record (calls that raised: {raised}); the check would be "
            "vacuous")
    # the projection must reproduce the requested ranks on rank curves
    for rec in fits:
        if "_want" in rec and not rec["req_zero"] and \
                [rec["req_lo"], rec["req_hi"]] != rec["_want"]:
            raise MachineryError(
                f"rank projection mismatch: {rec['cfg']} -> "
                f"{rec['req_lo']},{rec['req_hi']}")
    sentinels = [r["sentinel"] for r in results if "sentinel" in r]
    ff, fpair, states = validate(ctx, fits, [
        {k: v for k, v in p.items() if k != "cfg"} for p in pairs], "main",
        sentinels=sentinels)
    ctx.coverage["sentinel_runs"] = len(sentinels)
    if SENTINEL_FAILED:
        ctx.report(f"{prefix}ProcessHistoryFree|" + ",".join(SENTINEL_FAILED),
                   "default-everything calls on FRESH objects give different "
                   "results depending on what the worker process did before "
                   f"(fields that differ between runs: {SENTINEL_FAILED})",
                   {"kind": "sentinel", "fields": list(SENTINEL_FAILED)})
    ctx.tlc_states += states
    ctx.tlc_transitions += sum(len(r["passes"]) for r in fits)
    ctx.traces = len(fits) + len(pairs)
    other = {}
    for i, clauses in sorted(ff.items()):
        rec = fits[i]
        for cl in clauses:
            if not cl.startswith(prefix):
                other[cl] = other.get(cl, 0) + 1
                continue
            c = rec["cfg"]
            fp = f"{cl}|{fingerprint(c)}"
            ctx.report(fp, f"{cl} fails for fit configuration {c}: passes="
                       f"{[(p['kind'], p['lo'], p['hi'], p['zero'], p['npts'], p['ok'], p['cp_exp'], p['x_exp'], p['anchored_ok']) for p in rec['passes']][:6]} "
                       f"success={rec['success']} stale={rec['stale_keys']} "
                       f"rel={rec['rel']} scan={rec['scan']} "
                       f"xminmax_ok={rec['xminmax_ok']} "
                       f"stored_cp_exp={rec['stored_cp_exp']}",
                       {"kind": "fitcfg", "cfg": c, "clause": cl})
    for i, clauses in sorted(fpair.items()):
        for cl in clauses:
            if not cl.startswith(prefix):
                other[cl] = other.get(cl, 0) + 1
                continue
            c = pairs[i]["cfg"]
            ctx.report(f"{cl}|{fingerprint(c)}",
                       f"{cl} fails for k-pair of configuration {c}: "
                       f"{ {k: v for k, v in pairs[i].items() if k not in ('cfg', 'label')} }",
                       {"kind": "fitcfg", "cfg": c, "clause": cl})
    modes = {}
    for r in fits:
        key = f"{r['mode']}/{'ok' if r['success'] else 'failed'}"
        modes[key] = modes.get(key, 0) + 1
    ctx.coverage.update({
        "configurations": len(cfgs), "fits_recorded": len(fits),
        "optimiser_passes_recorded": sum(len(r["passes"]) for r in fits),
        "k_pairs": len(pairs), "fits_by_mode": modes,
        "calls_that_raised": raised,
        "clause_failures_other_properties": other,
    })
    for r in fits[:1] + fits[-2:]:
        ctx.sample({"cfg": r["cfg"], "mode": r["mode"],
                    "passes": [{k: p[k] for k in ("kind", "lo", "hi", "zero",
                                                  "npts", "ok", "cp_exp",
                                                  "x_exp")}
                               for p in r["passes"][:5]],
                    "success": r["success"], "rel": r["rel"]})
    return fits, pairs


def fingerprint(c):
    if c["kind"] == "rank":
        return f"rank:{c['n_app']},{c.get('n_mid', 0)},{c['n_ret']}," \
               f"seg{c['segment']}," \
               f"lo{c['lo']},hi{c['hi']}"
    return "fit:" + ",".join(f"{k}={c[k]}" for k in
                             ("curve", "model", "segment", "mode", "interval",
                              "k", "weight_cp", "vary", "cp_init", "noise",
                              "pipe", "post", "fault", "x_axis", "prefit",
                              "prefit_w", "prefit_p")
                             if k in c)


def replay(ctx, obj, prefix):
    if obj.get("kind") == "sentinel":
        print("process-state sentinel: the fields", obj.get("fields"),
              "differed between runs of the default-everything calls in one "
              "worker process; re-run the check to reproduce")
        return False
    r = run_config(obj["cfg"])
    if r.get("error"):
        print(r["error"])
        return False
    fits = [x for x in r["fits"] if not x["raised"] and "mode" in x]
    ff, fpair, _ = validate(ctx, fits, [
        {k: v for k, v in p.items() if k != "cfg"} for p in r["pairs"]],
        "replay")
    print("fits:", [(f["mode"], f["success"]) for f in fits], "failed:", ff,
          fpair)
    bad = [c for v in list(ff.values()) + list(fpair.values()) for c in v
           if c.startswith(prefix)]
    return not bad
