"""Harness for Registry.tla (C18): module mutants, plugin files, histories on
the real registry with snapshot/restore, ancillary seeding cases."""
import copy
import itertools
import json
import pathlib
import random
import sys
import types
import warnings

import numpy as np

import vcommon
from vcommon import MachineryError

REQUIRED = ["get_parameter_defaults", "model_doc", "model_key", "model_name",
            "parameter_keys", "parameter_names", "parameter_units",
            "valid_axes_x", "valid_axes_y", "model_func"]

MODEL_SRC = '''
import lmfit
import numpy as np


def get_parameter_defaults():
    params = lmfit.Parameters()
    params.add("E", value=3e3, min=0)
    params.add("R", value=10e-6, min=0, vary=False)
    params.add("nu", value=.5, min=0, max=0.5, vary=False)
    params.add("contact_point", value=0)
    params.add("baseline", value=0)
    return params


def model_func(delta, E, R, nu, contact_point=0, baseline=0):
    """same code as the shipped paraboloidal Hertz model"""
    aa = 4/3 * E/(1-nu**2)*np.sqrt(R)
    root = contact_point-delta
    pos = root > 0
    bb = np.zeros_like(delta)
    bb[pos] = (root[pos])**(3/2)
    return aa*bb + baseline


model_doc = model_func.__doc__
model_key = "%(key)s"
model_name = "verif model %(key)s"
parameter_keys = ["E", "R", "nu", "contact_point", "baseline"]
parameter_names = ["Young's Modulus", "Tip Radius",
                   "Poisson's Ratio", "Contact Point", "Force Baseline"]
parameter_units = ["Pa", "m", "", "m", "N"]
valid_axes_x = ["tip position"]
valid_axes_y = ["force"]
%(extra)s
'''

ANC_SRC = '''
parameter_anc_keys = ["anc_one", "R"]
parameter_anc_names = ["Ancillary One", "Tip Radius (anc)"]
parameter_anc_units = ["m", "m"]


def compute_ancillaries(idnt):
    return {"anc_one": 1.5e-6, "R": 7e-6}
'''


def build_module(name, key, anc=False):
    mod = types.ModuleType(name)
    src = MODEL_SRC % {"key": key, "extra": ANC_SRC if anc else ""}
    exec(compile(src, f"<verif:{name}>", "exec"), mod.__dict__)
    return mod


def mutants():
    """id -> (constructor, faulty?) ; every constructor returns a NEW module
    object (a failed registration must not be able to poison the next)"""
    out = {}

    def base(anc=True):
        return build_module("verif_mod_a", "verif_a", anc=anc)
    out["A"] = (lambda: base(), False)
    out["B"] = (lambda: build_module("verif_mod_b", "verif_b"), False)

    def a2():
        m = build_module("verif_mod_a2", "verif_a")
        m.model_name = "another model under the key of A"
        return m
    out["A2"] = (a2, False)
    for attr in REQUIRED:
        def mk(attr=attr):
            m = base()
            delattr(m, attr)
            return m
        out[f"del_{attr}"] = (mk, True)
    for attr in ("parameter_anc_keys", "parameter_anc_names",
                 "parameter_anc_units"):
        def mk(attr=attr):
            m = base()
            delattr(m, attr)
            return m
        out[f"del_{attr}"] = (mk, True)

    def alter(fn, faulty=True):
        def mk():
            m = base()
            fn(m)
            return m
        return (mk, faulty)
    out["names_short"] = alter(lambda m: setattr(
        m, "parameter_names", m.parameter_names[:-1]))
    out["names_long"] = alter(lambda m: setattr(
        m, "parameter_names", m.parameter_names + ["Extra"]))
    out["units_short"] = alter(lambda m: setattr(
        m, "parameter_units", m.parameter_units[:-1]))
    out["units_long"] = alter(lambda m: setattr(
        m, "parameter_units", m.parameter_units + ["m"]))
    out["keys_short"] = alter(lambda m: setattr(
        m, "parameter_keys", m.parameter_keys[:-1]))
    out["names_dup"] = alter(lambda m: setattr(
        m, "parameter_names", ["Same", "Same"] + m.parameter_names[2:]))
    out["keys_swapped"] = alter(lambda m: setattr(
        m, "parameter_keys", ["R", "E"] + m.parameter_keys[2:]))

    def fewer_defaults(m):
        orig = m.get_parameter_defaults

        def fewer():
            p = orig()
            p.pop("baseline")
            return p
        m.get_parameter_defaults = fewer
    out["defaults_fewer"] = alter(fewer_defaults)

    def swapped_defaults(m):
        import lmfit
        orig = m.get_parameter_defaults

        def sw():
            p = orig()
            q = lmfit.Parameters()
            for n in ["R", "E", "nu", "contact_point", "baseline"]:
                q.add(n, value=p[n].value)
            return q
        m.get_parameter_defaults = sw
    out["defaults_swapped"] = alter(swapped_defaults)
    # altered but still sound (warnings only)
    out["units_spaces"] = alter(lambda m: setattr(
        m, "parameter_units", ["Pa ", "m", "", "m", "N"]), faulty=False)
    return out


KEYOF = {"A": "verif_a", "B": "verif_b", "A2": "verif_a"}


def inplace_faults():
    """fault id -> function that damages an EXISTING module object in place
    (the key stays): the same single faults as in mutants()"""
    out = {}
    for attr in REQUIRED + ["parameter_anc_keys", "parameter_anc_names",
                            "parameter_anc_units"]:
        if attr == "model_key":
            continue
        out[f"del_{attr}"] = lambda m, attr=attr: delattr(m, attr)
    out["names_short"] = lambda m: setattr(
        m, "parameter_names", m.parameter_names[:-1])
    out["names_long"] = lambda m: setattr(
        m, "parameter_names", m.parameter_names + ["Extra"])
    out["units_short"] = lambda m: setattr(
        m, "parameter_units", m.parameter_units[:-1])
    out["keys_short"] = lambda m: setattr(
        m, "parameter_keys", m.parameter_keys[:-1])
    out["names_dup"] = lambda m: setattr(
        m, "parameter_names", ["Same", "Same"] + m.parameter_names[2:])
    out["keys_swapped"] = lambda m: setattr(
        m, "parameter_keys", ["R", "E"] + m.parameter_keys[2:])
    return out


def files(tmp):
    """file id -> (path, holds)"""
    tmp = pathlib.Path(tmp)
    d1, plug, d3 = tmp / "d1", tmp / "plug", tmp / "d3"
    for d in (d1, plug, d3):
        d.mkdir(exist_ok=True)
    out = {}

    def write(fid, d, stem, key, extra="", holds=None, raw=None):
        p = d / f"{stem}.py"
        p.write_text(raw if raw is not None else
                     MODEL_SRC % {"key": key, "extra": extra})
        out[fid] = (p, holds or fid)
    write("f_ok", d1, "verif_plugin_one", "verif_file1")
    write("f_onpath", plug, "verif_plugin_two", "verif_file2")
    write("f_anc", d1, "verif_plugin_anc", "verif_file3", extra=ANC_SRC)
    write("f_faulty", d1, "verif_plugin_bad", "verif_file4",
          raw=(MODEL_SRC % {"key": "verif_file4", "extra": ""}).replace(
              'parameter_units = ["Pa", "m", "", "m", "N"]', ""))
    write("f_syntax", d1, "verif_plugin_syn", "x", holds="syntax",
          raw="def broken(:\n    pass\n")
    write("f_importerr", d1, "verif_plugin_imp", "x", holds="importerr",
          raw="import no_such_module_for_nanite_verif\n")
    out["f_missing"] = (d1 / "verif_plugin_missing.py", "missing")
    # a sound model under a name python does not import from
    for fid, nm in (("f_txt", "verif_plugin_txt.py.txt"),
                    ("f_nosuffix", "verif_plugin_nosuffix")):
        pth = d1 / nm
        pth.write_text(MODEL_SRC % {"key": "verif_file9", "extra": ""})
        out[fid] = (pth, "importerr")
    # another directory, SAME file name and function name as f_ok, other
    # model key and OTHER CODE (twice the force: a revised model)
    write("f_samestem", d3, "verif_plugin_one", "verif_file5",
          raw=(MODEL_SRC % {"key": "verif_file5", "extra": ""}).replace(
              "aa = 4/3 * E/(1-nu**2)*np.sqrt(R)",
              "aa = 2 * 4/3 * E/(1-nu**2)*np.sqrt(R)"))
    return out, {"plug": str(plug)}


FILEKEY = {"f_ok": "verif_file1", "f_onpath": "verif_file2",
           "f_anc": "verif_file3", "f_faulty": "verif_file4",
           "f_samestem": "verif_file5"}


def build_world(muts, fls):
    from nanite import model
    shipped = sorted(model.models_available.keys())
    mods = sorted(muts) + [f for f, (_p, h) in fls.items() if h == f]
    keyof = {m: KEYOF.get(m, "verif_a") for m in muts}
    keyof.update(FILEKEY)
    for k in shipped:
        keyof[k] = k
    w = {"mods": ["_"] + mods,
         "faulty": ["_"] + [m for m, (_c, bad) in muts.items() if bad]
         + ["f_faulty"],
         "keyof": keyof,
         "files": ["_"] + sorted(fls),
         "holds": {f: h for f, (_p, h) in fls.items()},
         "shipped": ["_"] + shipped}
    return w


class RealRegistry:
    """snapshot / restore of the process-wide state the registry touches"""

    def __init__(self):
        from nanite.model import logic
        self.logic = logic
        self.models0 = dict(logic.models_available)
        self.path0 = list(sys.path)
        self.dwb0 = sys.dont_write_bytecode
        self.mods0 = set(sys.modules)

    def restore(self, plug_on_path=None, dwb=None):
        self.logic.models_available.clear()
        self.logic.models_available.update(self.models0)
        sys.path[:] = list(self.path0)
        if plug_on_path:
            sys.path.insert(0, plug_on_path)
        sys.dont_write_bytecode = self.dwb0 if dwb is None else dwb
        for k in list(sys.modules):
            if k not in self.mods0 and k.startswith("verif_plugin"):
                del sys.modules[k]
        import importlib
        importlib.invalidate_caches()


def run_histories(job):
    hists, tmp = job
    from nanite import model
    from nanite.model import core
    import os
    muts = mutants()
    wdir = pathlib.Path(tmp) / f"worker_{os.getpid()}"
    wdir.mkdir(exist_ok=True)
    fls, dirs = files(wdir)
    rr = RealRegistry()
    shipped_para = rr.models0["hertz_para"]
    x = np.linspace(2e-6, -1e-6, 50)
    traces = []
    for hist in hists:
        plug, dwb, ops = hist["plug"], hist["dwb"], hist["ops"]
        rr.restore(dirs["plug"] if plug else None, dwb)
        objid = {}     # id(module object) -> module id
        alive = []     # keeps the objects alive so that ids are not reused

        def project():
            reg = [["_", "_"]]
            for key, md in sorted(model.models_available.items()):
                mod = md.module
                mid = objid.get(id(mod))
                if mid is None:
                    f = getattr(mod, "__file__", None)
                    mid = next((fid for fid, (p, _h) in fls.items()
                                if f and pathlib.Path(f) == p), None)
                if mid is None:
                    mid = key if key in rr.models0 and \
                        rr.models0[key] is md else f"unknown:{key}"
                reg.append([key, mid])
            return {"reg": reg, "path": list(sys.path),
                    "dwb": bool(sys.dont_write_bytecode)}
        tr = {"init": project(), "events": [], "hist": hist}
        for op in ops:
            ev = {"op": op[0], "arg": op[1], "register": False, "out": "ok",
                  "errclass": "none", "errclass_exact": "none",
                  "defaults_ok": True, "like_shipped": True}
            try:
                with warnings.catch_warnings():
                    warnings.simplefilter("ignore")
                    if op[0] == "register" and len(op) > 2 and op[2]:
                        # the module object registered before (valid, key
                        # of A) is damaged in place and registered again
                        prev = [m for m in alive
                                if objid.get(id(m)) in ("A", "A2")]
                        if prev:
                            mod = prev[-1]
                        else:
                            mod = muts["A"][0]()
                            alive.append(mod)
                        ev["inplace"] = True
                        inplace_faults()[op[1]](mod)
                        md = model.register_model(mod)
                    elif op[0] == "register":
                        mod = muts[op[1]][0]()
                        objid[id(mod)] = op[1]
                        alive.append(mod)
                        md = model.register_model(mod)
                        ev["defaults_ok"] = defaults_ok(md, mod)
                    elif op[0] == "deregister":
                        mod = muts[op[1]][0]()
                        model.deregister_model(mod)
                    else:
                        ev["register"] = bool(op[2])
                        md = model.load_model_from_file(
                            fls[op[1]][0], register=bool(op[2]))
                        ev["like_shipped"] = like_shipped(md, shipped_para,
                                                          x, op[1])
            except BaseException as exc:
                if isinstance(exc, (KeyboardInterrupt, SystemExit)):
                    raise
                ev["out"] = "raise"
                ev["errclass_exact"] = type(exc).__name__
                ev["errclass"] = "ModelError" \
                    if isinstance(exc, core.ModelError) else type(exc).__name__
            ev["post"] = project()
            tr["events"].append(ev)
        traces.append(tr)
    rr.restore()
    return traces


def defaults_ok(md, mod):
    from nanite.model.core import ANCILLARY_COMMON
    try:
        ok = callable(md.model) and callable(md.residual)
        # the default wrappers, judged by what they do: the module's own
        # function on approach-ordered data, residuals = data - model
        p = md.get_parameter_defaults()
        x = np.linspace(2e-6, -1e-6, 30)
        for xx in (x, x[::-1].copy()):
            want_f = mod.model_func(np.sort(xx)[::-1].copy(),
                                    **p.valuesdict())
            if xx[0] < xx[-1]:
                want_f = want_f[::-1]
            got_f = np.asarray(md.model(p, xx.copy()))
            ok = ok and bool(np.array_equal(got_f, want_f))
            ok = ok and bool(np.all(np.asarray(
                md.residual(p, xx.copy(), want_f.copy(), 0)) == 0))
        anc_before = list(getattr(mod, "parameter_anc_keys", []))
        for i, k in enumerate(mod.parameter_keys):
            ok = ok and md.get_parm_name(k) == mod.parameter_names[i]
            ok = ok and md.get_parm_unit(k) == mod.parameter_units[i]
        want = list(ANCILLARY_COMMON.keys())
        if hasattr(mod, "compute_ancillaries"):
            want += list(anc_before)
        # (a query; asking twice gives the same answer and leaves the module
        # as it was)
        ok = ok and md.get_anc_parm_keys() == want
        ok = ok and md.get_anc_parm_keys() == want
        ok = ok and list(getattr(mod, "parameter_anc_keys", [])) == anc_before
        if hasattr(mod, "compute_ancillaries"):
            for i, k in enumerate(anc_before):
                if k in mod.parameter_keys:
                    continue     # (a fit parameter of the same key wins)
                ok = ok and md.get_parm_name(k) == mod.parameter_anc_names[i]
                ok = ok and md.get_parm_unit(k) == mod.parameter_anc_units[i]
        ok = ok and md.model_key == mod.model_key
        return bool(ok)
    except BaseException as exc:
        if isinstance(exc, (KeyboardInterrupt, SystemExit)):
            raise
        return False


def like_shipped(md, shipped, x, fid):
    try:
        if md.model_key != FILEKEY[fid]:
            return False
        p = md.get_parameter_defaults()
        q = shipped.get_parameter_defaults()
        if [(n, v.value, v.min, v.max, v.vary) for n, v in p.items()] != \
                [(n, v.value, v.min, v.max, v.vary) for n, v in q.items()]:
            return False
        p["E"].set(value=2345.)
        q["E"].set(value=2345.)
        # (the file of the same name in the other directory holds a revised
        # model: twice the force)
        scale = 2.0 if fid == "f_samestem" else 1.0
        a = md.model(p, x)
        b = shipped.model(q, x) * scale
        r1 = md.residual(p, x, b, 5e-7)
        return bool(np.array_equal(a, b) and np.all(r1 == 0))
    except BaseException as exc:
        if isinstance(exc, (KeyboardInterrupt, SystemExit)):
            raise
        return False


# --------------------------------------------------------------------------
def seed_cases():
    """all ancillary dictionaries over {absent, nan, val} for E, R, nu"""
    import synth
    from nanite import model
    rr = RealRegistry()
    out = []
    names = ["E", "R", "nu", "contact_point"]
    vals = {"E": 1234.5, "R": 7.7e-6, "nu": 0.31, "contact_point": 3.3e-7}
    idnt = synth.make_curve(n_app=200, noise=1e-11, seed=2)
    with warnings.catch_warnings():
        warnings.simplefilter("ignore")
        idnt.apply_preprocessing(["compute_tip_position",
                                  "correct_tip_offset"])
    # "not a number" comes in many objects: the numpy singleton, a Python
    # float, a numpy scalar computed on the way, an array element
    nan_flavours = [lambda: np.nan, lambda: float("nan"),
                    lambda: np.float64(0.) * np.float64("inf"),
                    lambda: np.array([1., np.nan])[1],
                    lambda: np.float32("nan"), lambda: -np.nan]
    for ci, combo in enumerate(itertools.product(["absent", "nan", "val"],
                                                 repeat=4)):
        anc = dict(zip(names, combo))
        mod = build_module("verif_seed", "verif_seed")
        keys = [n for n in names if anc[n] != "absent"]
        if keys:
            mod.parameter_anc_keys = list(keys)
            mod.parameter_anc_names = [f"anc {n}" for n in keys]
            mod.parameter_anc_units = ["x"] * len(keys)
            with np.errstate(all="ignore"):
                nans = {n: nan_flavours[(ci + j) % len(nan_flavours)]()
                        for j, n in enumerate(names)}
            mod.compute_ancillaries = lambda fd, a=anc, k=keys, nn=nans: {
                n: (nn[n] if a[n] == "nan" else vals[n]) for n in k}
        rec = {"anc": anc, "init": {}, "exc": ""}
        try:
            with warnings.catch_warnings():
                warnings.simplefilter("ignore")
                model.register_model(mod)
                idnt.fit_properties.reset()
                idnt.fit_properties.pop("params_initial", None)
                p = idnt.get_initial_fit_parameters(model_key="verif_seed")
            d = mod.get_parameter_defaults()
            for n in names:
                if p[n].value == vals[n]:
                    rec["init"][n] = "anc"
                elif p[n].value == d[n].value:
                    rec["init"][n] = "default"
                else:
                    rec["init"][n] = "other"
        except BaseException as exc:
            if isinstance(exc, (KeyboardInterrupt, SystemExit)):
                raise
            rec["exc"] = type(exc).__name__
            rec["init"] = {n: "raise" for n in names}
        rr.restore()
        out.append(rec)
    return out


def alphabet(muts, fls):
    ops = [["register", m] for m in muts] + \
          [["deregister", m] for m in ("A", "B", "A2")] + \
          [["load", f, r] for f in fls for r in (0, 1)]
    return ops


def histories(tier, rng, muts, fls):
    ops = alphabet(muts, fls)
    hists = []
    for plug in (False, True):
        for dwb in (False, True):
            for a in ops:
                hists.append({"plug": plug, "dwb": dwb, "ops": [a]})
    # register a valid module, damage the SAME object, register it again
    for f in sorted(inplace_faults()):
        for first in ("A", "A2"):
            if first == "A2" and f.startswith("del_parameter_anc"):
                continue      # (A2 has no ancillary attributes to lose)
            hists.append({"plug": False, "dwb": False,
                          "ops": [["register", first],
                                  ["register", f, 1]]})
            hists.append({"plug": True, "dwb": False,
                          "ops": [["register", first], ["register", "B"],
                                  ["register", f, 1],
                                  ["deregister", "A"]]})
    interesting = [o for o in ops if o[0] != "register"
                   or o[1] in ("A", "B", "A2", "del_model_func",
                               "defaults_fewer", "names_dup")]
    for a, b in itertools.product(interesting, repeat=2):
        hists.append({"plug": rng.random() < .5, "dwb": rng.random() < .5,
                      "ops": [a, b]})
    n3 = 1500 if tier == "quick" else 20000
    for _ in range(n3):
        k = rng.choice([3, 4])
        hists.append({"plug": rng.random() < .5, "dwb": rng.random() < .5,
                      "ops": [rng.choice(ops if rng.random() < .5
                                         else interesting)
                              for _ in range(k)]})
    return hists


def validate(ctx, traces, seeds, world_path, label, batch=2500):
    failed, sfailed = {}, {}
    states = 0
    for b0 in range(0, len(traces), batch):
        chunk = traces[b0:b0 + batch]
        path = ctx.scratch / f"c18_batch_{label}_{b0}.json"
        slim = [{"init": t["init"], "events": [
            {k: v for k, v in e.items()} for e in t["events"]]}
            for t in chunk]
        path.write_text(json.dumps(vcommon.jsonable(
            {"traces": slim, "seeds": seeds if b0 == 0 else seeds[:1]})))
        res = vcommon.tlc("RegistryTrace.tla", "RegistryTrace.cfg",
                          ctx.scratch, env={"TRACE_FILE": path,
                                            "REGWORLD": world_path},
                          workers=1, coverage=False, timeout=3600,
                          jvm_opts=["-Xmx8g"])
        path.unlink()
        if res.violated or res.error:
            raise MachineryError("RegistryTrace failed:\n"
                                 + vcommon.err_excerpt(res.stdout))
        states += res.distinct
        for obj in res.printed():
            if "seed" in obj:
                if b0 == 0:
                    sfailed[obj["seed"] - 1] = sorted(obj["failed"])
            elif "failed" in obj:
                failed[(b0 + obj["t"] - 1, obj["i"] - 1)] = \
                    sorted(obj["failed"])
    return failed, sfailed, states
