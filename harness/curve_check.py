"""Shared engine for the Curve.tla family of checks (C03, C06, C09, C10,
C12): TLC design runs per slice, transition tours replayed into the real
code, random driver histories, trace validation with CurveTrace.tla."""
import concurrent.futures as cf
import json
import os
import random
import time

import vcommon
from vcommon import MachineryError
import world

CURVES = {
    "syn1": ("synth", dict(n_app=300, noise=2e-11, seed=3)),
    "syn2": ("synth", dict(n_app=700, n_ret=300, noise=5e-11, seed=5,
                           tilt=2e-5, model_key="hertz_cone")),
    "rec1": ("recorded", "fmt-jpk-fd_spot3-0192.jpk-force"),
    # very short segments: several continuous features are undefined
    "syn3": ("synth", dict(n_app=45, n_ret=30, noise=2e-11, seed=9)),
    # syn1 with ONE force sample changed / with only the time column changed
    "syn1x": ("synth", dict(n_app=300, noise=2e-11, seed=3, perturb="force")),
    "syn1t": ("synth", dict(n_app=300, noise=2e-11, seed=3, perturb="time")),
    # recorded curves of bad quality: contact-point fits can end up outside
    # of the data
    "bad1": ("recorded", "fmt-jpk-fd_single_bad_2017-01-16_1.jpk-force"),
    "bad2": ("recorded", "fmt-jpk-fd_single_bad_2017-01-16_2.jpk-force"),
    "bad5": ("recorded", "fmt-jpk-fd_single_bad_2017-01-16_5.jpk-force"),
    # tilted baselines, piezo lag: segment discovery has something to do
    "tilt1": ("recorded", "fmt-jpk-fd_single_tilted-baseline-drift-mitotic"
                          "_2021-01-29.jpk-force"),
    "lag1": ("synth", dict(n_app=500, n_ret=400, noise=3e-11, seed=4,
                           tilt=4e-5, drift=2e-10, lag=12)),
}


def curve_factories():
    import synth
    fac = {}
    for cid, (kind, arg) in CURVES.items():
        if kind == "synth":
            fac[cid] = (lambda a=arg: synth.make_curve(**a))
        else:
            fac[cid] = (lambda a=arg: synth.load_recorded(a))
    return fac


# --------------------------------------------------------------------------
# design run + walks for one slice (runs in a thread: TLC is a subprocess)
# --------------------------------------------------------------------------
def slice_walks(scratch, name, sl, maxlen, seed, limit):
    import tlcwalk
    w = world.build_world(sl)
    wpath = scratch / f"world_{name}.json"
    wpath.write_text(json.dumps(w))
    dot = scratch / f"curve_{name}.dot"
    res = vcommon.tlc("Curve.tla", "Curve.cfg", scratch,
                      env={"WORLD": wpath}, workers=2,
                      extra=["-dump", "dot,actionlabels", str(dot)],
                      coverage=False, timeout=1800)
    vcommon.need_ok(res, f"Curve design, slice {name}")
    init, nodes, edges = tlcwalk.parse_dot(dot)
    dot.unlink()
    walks, covered = tlcwalk.tour(init, edges, maxlen=maxlen,
                                  rng=random.Random(seed), limit=limit)
    ops = [[tlcwalk.label_to_op(lab) for lab in wk] for wk in walks]
    labels = {}
    for u, v, lab in edges:
        a = lab.split("(")[0]
        labels[a] = labels.get(a, 0) + 1
    return {"name": name, "res": res, "walks": ops, "labels": walks,
            "edges": len(edges), "covered": covered, "states": len(nodes),
            "actions": labels}


# --------------------------------------------------------------------------
# executing histories on real curves (process pool)
# --------------------------------------------------------------------------
def sentinel():
    """Default-everything use of every entry point on fresh objects -> named
    digests.  It is both the probe and a trigger: whatever a call with
    defaults leaves behind in module-level state shows in the next run."""
    import hashlib
    import warnings
    import numpy as np
    import synth
    import oracle as orc
    from nanite import model, preproc
    from nanite.rate import rater as nrater
    from nanite.rate.regressors import reg_dict
    P1 = world.PIPES["P1"][0]
    out = {}

    def dg(*vals):
        h = hashlib.sha1()
        for v in vals:
            if isinstance(v, np.ndarray):
                h.update(np.ascontiguousarray(v).tobytes())
            else:
                h.update(repr(v).encode())
        return h.hexdigest()[:12]

    def state(idnt):
        fp = idnt.fit_properties
        pf = fp.get("params_fitted")
        return dg(fp.get("hash"), fp.get("success"),
                  world._norm(pf) if pf is not None else None,
                  np.asarray(idnt["fit range"]) if "fit range" in idnt
                  else None, fp.get("xmin"), fp.get("xmax"),
                  sorted((k, repr(world._norm(v))) for k, v in fp.items()
                         if k in world.FP_KEYS))
    with warnings.catch_warnings():
        warnings.simplefilter("ignore")
        a = synth.make_curve(n_app=300, noise=2e-11, seed=3)
        a.apply_preprocessing(list(P1))
        a.fit_model(model_key="hertz_para")
        out["fit_default"] = state(a)
        out["rate_default"] = dg(orc.fhex(a.rate_quality()))
        out["init_params"] = dg(world._norm(a.get_initial_fit_parameters()))
        b = synth.make_curve(n_app=300, noise=2e-11, seed=3)
        b.apply_preprocessing(list(P1))
        b.fit_properties["optimal_fit_num_samples"] = 8
        e, d = b.compute_emodulus_mindelta()
        out["scan_default"] = dg(np.asarray(e, float), np.asarray(d, float))
        b.fit_model(model_key="hertz_para")
        out["fit_after_scan"] = state(b)
        c = synth.make_curve(n_app=300, noise=2e-11, seed=3)
        c.apply_preprocessing(list(P1))
        c.fit_model(model_key="hertz_para", method="nelder")
        out["fit_nelder"] = state(c)
        c2 = synth.make_curve(n_app=300, noise=2e-11, seed=3)
        c2.apply_preprocessing(list(P1))
        c2.fit_model(model_key="hertz_cone", range_type="relative cp",
                     range_x=[-5e-7, 2e-7])
        out["fit_relative"] = state(c2)
        # refusals, then the defaults again
        for bad in (["compute_tip_position", "bogus"], ["correct_tip_offset"]):
            try:
                preproc.autosort(list(bad))
            except (ValueError, KeyError):
                pass
            try:
                x = synth.make_curve(n_app=60, seed=1)
                x.apply_preprocessing(list(bad))
            except (ValueError, KeyError):
                pass
        av = list(preproc.available())
        out["preproc"] = dg(av, preproc.autosort(list(av)),
                            preproc.autosort(av[::-1]))
        out["models"] = dg(sorted(
            (k, repr(world._norm(md.get_parameter_defaults())))
            for k, md in model.models_available.items()
            if not k.startswith("verif")))
        out["regressors"] = dg(sorted(
            (k, v[0].__name__, sorted(v[1].items()))
            for k, v in reg_dict.items()))
        r = nrater.get_rater("Extra Trees")
        out["rater_default"] = dg(sorted(
            (k, repr(v)) for k, v in
            r.pipeline.steps[-1][1].get_params().items())
            if hasattr(r, "pipeline") else repr(r))
        d2 = synth.make_curve(n_app=300, noise=2e-11, seed=3)
        d2.apply_preprocessing(list(P1))
        d2.fit_model(model_key="hertz_para")
        out["fit_default_again"] = state(d2)
    return out


def _exec_chunk(job):
    """job = (cid list, [history, ...]); returns traces + hash observations"""
    import oracle
    import curve_exec
    cids, histories, tags = job
    global _ORC, _IDS
    if _ORC is None:
        # one oracle per worker process: memoised by value, so sharing it
        # between jobs cannot leak history
        _ORC = oracle.Oracle(curve_factories())
        _IDS = world.Interner("v")
    orc, ids = _ORC, _IDS
    terms0 = orc.terms
    traces, hashobs = [], {}
    raters = dict(world.RATERS)
    try:
        SENTINELS.append(sentinel())
    except BaseException as exc:
        if isinstance(exc, (KeyboardInterrupt, SystemExit)):
            raise
        SENTINELS.append({"raised": type(exc).__name__})
    for n, (hist, tag) in enumerate(zip(histories, tags)):
        cid = cids[n % len(cids)]
        if tag.startswith("scripted:"):
            cid = tag.split(":")[1]          # scripted:<curve>:<n>
        ex = curve_exec.Executor(cid, orc, interner=ids, raters=raters)
        tr = ex.run(hist)
        tr["tag"] = tag
        traces.append(tr)
        for k, v in ex.hashobs.items():
            hashobs.setdefault((cid,) + k, dict(v, cid=cid))
    for tr in traces[:1]:
        tr["sentinel"] = SENTINELS[-1]
    return traces, list(hashobs.values()), orc.terms - terms0


SENTINELS = []

_ORC = None
_IDS = None


def execute(histories, tags, cids, nproc=None, chunk=25):
    nproc = nproc or min(vcommon.NCPU, 16)
    jobs = []
    for i in range(0, len(histories), chunk):
        jobs.append((cids, histories[i:i + chunk], tags[i:i + chunk]))
    traces, hashobs, terms = [], [], 0
    if not jobs:
        return traces, hashobs, terms
    with cf.ProcessPoolExecutor(max_workers=nproc) as pool:
        for tr, ho, t in pool.map(_exec_chunk, jobs):
            traces.extend(tr)
            hashobs.extend(ho)
            terms += t
    return traces, hashobs, terms


# --------------------------------------------------------------------------
# random driver (code -> spec): long histories over the whole catalogue
# --------------------------------------------------------------------------
def random_history(rng, length, weights=None):
    w = dict(apply=3, fit=5, set=4, rate=1, scan=.3, getinit=1,
             mutate_pi=1, mutate_pl=1, unknown=.4, orphan=.4, alias_pl=.5,
             around=.2)
    if weights:
        w.update(weights)
    kinds, ws = zip(*w.items())
    pipes = list(world.PIPES) + list(world.BADPIPES)
    valid = list(world.PIPES)
    keys = [k for k in world.SETTING_KEYS if k in world.CATALOG]
    raters = list(world.RATERS)
    hist = []
    for _ in range(length):
        kind = rng.choices(kinds, ws)[0]
        if kind == "apply":
            p = rng.choice(pipes if rng.random() < .35 else valid)
            hist.append({"op": "apply", "pipe": p,
                         "via": rng.choices(["obj", "fresh", "details",
                                             "attr"],
                                            [.15, .5, .15, .2])[0],
                         "noargs": rng.random() < .5})
            if hist[-1]["via"] == "obj":
                hist.insert(-1, {"op": "mutate_pl", "pipe": p})
        elif kind == "fit":
            n = rng.choice([0, 0, 1, 1, 2, 3])
            kw = {}
            for k in rng.sample(keys, n):
                cand = [v for v in world.CATALOG[k]
                        if rng.random() < .85 or not world.is_bad(k, v)]
                kw[k] = rng.choice(cand)
            op = {"op": "fit", "kw": kw}
            r = rng.random()
            if r < .2:
                op["pipe"] = rng.choice(pipes if rng.random() < .3
                                        else valid)
                if rng.random() < .3:
                    op["no_opts"] = True
            hist.append(op)
        elif kind == "set":
            k = rng.choice(keys)
            hist.append({"op": "set", "key": k,
                         "val": rng.choice(list(world.CATALOG[k]))})
        elif kind == "rate":
            hist.append({"op": "rate", "rater": rng.choice(raters),
                         "copyargs": rng.random() < .5})
        elif kind == "around":
            hist.append({"op": rng.choice(["rate_fault", "get_rater_kw"]),
                         "rater": rng.choice([r for r in raters
                                              if "none" not in r.lower()])})
        elif kind == "scan":
            hist.append({"op": "scan"})
        elif kind == "getinit":
            op = {"op": "getinit"}
            if rng.random() < .3:
                op["model"] = rng.choice(["m_para", "m_cone", "m_pyr"])
            hist.append(op)
        elif kind == "mutate_pi":
            hist.append({"op": "mutate_pi", "val": rng.choice(
                list(world.CATALOG["params_initial"]))})
            if rng.random() < .7:
                hist.append({"op": "fit", "kw": {"params_initial":
                                                 hist[-1]["val"]},
                             "via": "obj"})
        elif kind == "mutate_pl":
            hist.append({"op": "mutate_pl", "pipe": rng.choice(pipes)})
        elif kind == "unknown":
            hist.append(rng.choice([{"op": "set_unknown"},
                                    {"op": "fit_unknown", "kw": {}}]))
        elif kind == "alias_pl":
            # pass a (steps, options) object, edit it in place (also inside
            # the nested option dictionaries), pass it again
            pa, pb = rng.choice([("P1b", "P1d"), ("P1d", "P1b"),
                                 ("P2", "P4"), ("P1", "P1b"), ("P1b", "B3")])
            use_fit = rng.random() < .6

            def call(p):
                if use_fit:
                    return {"op": "fit", "kw": {}, "pipe": p,
                            "via_pl": "obj"}
                return {"op": "apply", "pipe": p, "via": "obj"}
            hist += [{"op": "mutate_pl", "pipe": pa}, call(pa),
                     {"op": "mutate_pl", "pipe": pb}, call(pb)]
        elif kind == "orphan":
            hist.append({"op": "fit", "kw": {},
                         "opts_only": rng.choice(["P1b", "P2", "P4", "P1"])})
    return hist[:length + 4]


# --------------------------------------------------------------------------
# validation
# --------------------------------------------------------------------------
def slim(tr):
    """drop fields TLC does not need (keeps the batch small)"""
    def ev(e):
        e = dict(e)
        e.pop("src", None)
        e.pop("keys", None)
        p = dict(e["post"])
        p.pop("why", None)
        e["post"] = p
        return e
    init = dict(tr["init"])
    init.pop("why", None)
    return {"init": init, "events": [ev(e) for e in tr["events"]]}
    # (the sentinel observations travel separately)


PAD_OBS = {"xy": "pad", "pipe_fp": "pad",
           "sett": {k: "pad" for k in world.SETTING_KEYS}, "rx_hi": "pad",
           "edelta": False, "hash": "pad", "cid": "pad"}


def validate(ctx, traces, hashobs, label, batch=400, sentinels=None):
    """CurveTrace.tla over the traces.  Returns
    ({trace index: {event index: [clauses]}}, hash pair violations,
    tlc states)."""
    failed, pairs = {}, []
    states = 0
    obs = [{k: v for k, v in o.items() if k != "reprs"}
           for o in hashobs] or [PAD_OBS]
    full = list(hashobs)
    # hash observations are validated once (first batch)
    for b0 in range(0, max(len(traces), 1), batch):
        chunk = traces[b0:b0 + batch]
        if not chunk:
            break
        path = ctx.scratch / f"curve_batch_{label}_{b0}.json"
        sent = (list(sentinels) if sentinels is not None else
                [t["sentinel"] for t in traces if "sentinel" in t]) \
            if b0 == 0 else []
        fields = sorted({k for sdict in sent for k in sdict}) or ["pad"]
        sent = [{k: sdict.get(k, "missing") for k in fields}
                for sdict in sent] or [{"pad": "pad"}]
        path.write_text(json.dumps(vcommon.jsonable(
            {"traces": [slim(t) for t in chunk],
             "hashobs": obs if b0 == 0 else [PAD_OBS],
             "sentinels": sent})))
        res = vcommon.tlc("CurveTrace.tla", "CurveTrace.cfg", ctx.scratch,
                          env={"TRACE_FILE": path}, workers=1,
                          coverage=False, timeout=3600,
                          jvm_opts=["-Xmx8g"])
        path.unlink()
        if res.violated or res.error:
            raise MachineryError("CurveTrace failed:\n" + vcommon.err_excerpt(res.stdout))
        states += res.distinct
        for obj in res.printed():
            if "failed" in obj:
                failed.setdefault(b0 + obj["t"] - 1, {})[obj["i"] - 1] = \
                    sorted(obj["failed"])
            elif "hashpairs" in obj:
                pairs = [(full[a - 1], full[b - 1])
                         for a, b in obj["hashpairs"]]
            elif "sentinel_fields" in obj:
                SENTINEL_FAILED[:] = sorted(obj["sentinel_fields"])
    return failed, pairs, states


SENTINEL_FAILED = []


def signature(op):
    """abstract signature of an executor op (for fingerprints)"""
    k = op["op"]
    if k == "apply":
        return f"apply({op['pipe']},{op.get('via', 'fresh')})"
    if k == "fit":
        kw = ",".join(f"{a}={b}" for a, b in sorted(op.get("kw", {}).items()))
        extra = ""
        if op.get("pipe"):
            extra = f";pre={op['pipe']}" + (";noopts" if op.get("no_opts")
                                            else "")
        if op.get("opts_only"):
            extra = f";orphan={op['opts_only']}"
        if op.get("via") == "obj":
            extra += ";obj"
        return f"fit({kw}{extra})"
    if k == "set":
        return f"set({op['key']}={op['val']}" + \
            (",obj)" if op.get("via") == "obj" else ")")
    if k in ("rate", "rate_fault", "get_rater_kw"):
        return f"{k}({op['rater']})"
    if k in ("mutate_pl", "mutate_attr"):
        return f"{k}({op['pipe']})"
    if k == "mutate_pi":
        return f"mutate_pi({op['val']})"
    if k == "getinit":
        return f"getinit({op.get('model', '')})"
    return k


def run_engine(ctx, prefix, slices, n_random, rand_len, rand_weights=None,
               walk_limit=None, curves=("syn1", "rec1"), maxlen=12,
               scripted=()):
    """Common body of the C03/C06/C09/C10 checks.  `prefix` selects the
    clauses this check is responsible for (e.g. 'C03_')."""
    rng = random.Random(ctx.seed * 7919 + 13)
    t0 = time.time()
    # 1. design runs and walks (threads; each TLC is its own process)
    results = []
    with cf.ThreadPoolExecutor(max_workers=max(2, vcommon.NCPU // 2)) as tp:
        futs = [tp.submit(slice_walks, ctx.scratch, name, sl, maxlen,
                          rng.randrange(1 << 30), walk_limit)
                for name, sl in slices.items()]
        for f in futs:
            results.append(f.result())
    histories, tags = [], []
    actions = {}
    for r in results:
        ctx.add_tlc(r["res"], f"Curve.tla slice {r['name']}")
        for a, n in r["actions"].items():
            actions[a] = actions.get(a, 0) + n
        for i, wk in enumerate(r["walks"]):
            histories.append(wk)
            tags.append(f"walk:{r['name']}:{i}")
    ctx.coverage["design_slices"] = {
        r["name"]: {"states": r["states"], "edges": r["edges"],
                    "edges_covered_by_walks": r["covered"],
                    "walks": len(r["walks"])} for r in results}
    ctx.coverage["design_edge_labels"] = actions
    t1 = time.time()
    # 2. random driver histories
    for i in range(n_random):
        histories.append(random_history(rng, rand_len, rand_weights))
        tags.append(f"random:{i}")
    # 2b. scripted histories (a product the check wants covered for sure),
    #     each on every curve
    for cid in curves:
        for i, h in enumerate(scripted):
            histories.append(h)
            tags.append(f"scripted:{cid}:{i}")
    # 3. execute on the real code
    traces, hashobs, terms = execute(histories, tags, list(curves))
    t2 = time.time()
    # 4. validate with TLC
    failed, pairs, states = validate(ctx, traces, hashobs, "main")
    t3 = time.time()
    ctx.tlc_states += states
    ctx.tlc_transitions += sum(len(t["events"]) for t in traces)
    ctx.traces = len(traces)
    other = {}
    nfail = 0
    for ti, evs in sorted(failed.items()):
        tr = traces[ti]
        for ei, clauses in sorted(evs.items()):
            for cl in clauses:
                if not cl.startswith(prefix):
                    other[cl] = other.get(cl, 0) + 1
                    continue
                nfail += 1
                ev = tr["events"][ei]
                prefix_ops = [e["src"] for e in tr["events"][:ei + 1]]
                fp = fingerprint(cl, tr, ei)
                ctx.report(fp, describe(cl, tr, ei),
                           {"kind": "curve", "cid": tr["cid"],
                            "ops": prefix_ops, "clause": cl})
    if SENTINEL_FAILED:
        ctx.report(f"{prefix}ProcessHistoryFree|" + ",".join(SENTINEL_FAILED),
                   "default-everything calls on FRESH objects give different "
                   "results depending on what the worker process did before "
                   f"(fields that differ between runs: {SENTINEL_FAILED}): "
                   "module-level state of the library was changed by an "
                   "earlier call",
                   {"kind": "sentinel", "fields": list(SENTINEL_FAILED)})
    ctx.coverage["sentinel_runs"] = sum(1 for t in traces if "sentinel" in t)
    ctx.coverage.update({
        "histories": len(histories),
        "events": sum(len(t["events"]) for t in traces),
        "oracle_terms": terms,
        "clause_failures_this_property": nfail,
        "clause_failures_other_properties": other,
        "hash_observations": len(hashobs),
        "timing_s": {"design+walks": round(t1 - t0, 1),
                     "execute": round(t2 - t1, 1),
                     "tlc_validate": round(t3 - t2, 1)},
    })
    for tr in traces[:2]:
        ctx.sample({"tag": tr["tag"], "cid": tr["cid"],
                    "ops": [signature(e["src"]) for e in tr["events"]],
                    "post_res": [e["post"]["res"] for e in tr["events"]],
                    "out": [e["out"] for e in tr["events"]]})
    return traces, hashobs, failed, pairs


def fingerprint(clause, tr, ei):
    """(clause, signature of the failing call, signature of the most recent
    state-changing call before it)"""
    ev = tr["events"][ei]
    prev = ""
    for e in reversed(tr["events"][:ei]):
        if e["op"] not in ("rate",):
            prev = signature(e["src"])
            break
    return f"{clause}|{signature(ev['src'])}|after:{prev}|{ev['out']}"


def describe(clause, tr, ei):
    ev = tr["events"][ei]
    ops = [signature(e["src"]) for e in tr["events"][:ei + 1]]
    return (f"{clause} fails at step {ei + 1} of {tr['tag']} on curve "
            f"{tr['cid']}: {' ; '.join(ops[-6:])} -> out={ev['out']} "
            f"{ev['exc']} nopt={ev['nopt']} res={ev['post']['res']} "
            f"{ev['post'].get('why', '')} ret={ev.get('ret')} "
            f"expect={ev.get('expect')}")


def replay(ctx, obj, prefix):
    if obj.get("kind") == "sentinel":
        print("process-state sentinel: the fields", obj.get("fields"),
              "differed between runs of the default-everything calls in one "
              "worker process; re-run the check to reproduce")
        return False
    import oracle
    import curve_exec
    orc = oracle.Oracle(curve_factories())
    ex = curve_exec.Executor(obj["cid"], orc, raters=dict(world.RATERS))
    tr = ex.run(obj["ops"])
    tr["tag"] = "replay"
    failed, pairs, _ = validate(ctx, [tr], list(ex.hashobs.values()),
                                "replay")
    bad = [c for evs in failed.values() for cl in evs.values() for c in cl
           if c.startswith(prefix)]
    for e in tr["events"]:
        print(" ", signature(e["src"]), "->", e["out"], e["exc"],
              "res=" + e["post"]["res"], e["post"].get("why", ""))
    print("failed clauses:", failed)
    return not bad


def repo_test_traces(ctx, prefix):
    """Thorough tier: the repository's own test-suite runs under the passive
    recorder; every Indentation a test creates yields a trace (cut at the
    first step that changes the object behind the library's back) that is
    validated like any other trace."""
    import rectrace
    outdir = ctx.scratch / "repo_records"
    tail = rectrace.run_repo_tests(outdir)
    recs = rectrace.load_records(outdir)
    traces, stats = rectrace.build_traces(recs)
    stats["pytest_summary"] = tail
    if not traces:
        raise MachineryError("no trace recorded from the repository tests: "
                             + tail)
    failed, _pairs, states = validate(ctx, traces, [], "repo")
    ctx.tlc_states += states
    ctx.tlc_transitions += stats["events"]
    ctx.traces += len(traces)
    other = {}
    for ti, evs in sorted(failed.items()):
        tr = traces[ti]
        for ei, clauses in sorted(evs.items()):
            for cl in clauses:
                if not cl.startswith(prefix):
                    other[cl] = other.get(cl, 0) + 1
                    continue
                ev = tr["events"][ei]
                calls = [e["src"]["desc"] for e in tr["events"][:ei + 1]]
                ctx.report(
                    f"{cl}|repo-test|{ev['src']['test'][:80]}|{calls[-1][:80]}",
                    f"{cl} fails in the recorded run of {ev['src']['test']} "
                    f"on {tr['cid']}: calls {calls[-5:]} -> out={ev['out']} "
                    f"{ev['exc']} nopt={ev['nopt']} res={ev['post']['res']} "
                    f"{ev['post'].get('why', '')}",
                    {"kind": "repo-test", "test": ev["src"]["test"],
                     "calls": calls, "clause": cl})
    stats["clause_failures_other_properties"] = other
    ctx.coverage["repository_test_traces"] = stats
    for tr in traces[:1]:
        ctx.sample({"tag": tr["tag"], "cid": tr["cid"],
                    "calls": [e["src"]["desc"][:100] for e in tr["events"]],
                    "post_res": [e["post"]["res"] for e in tr["events"]]})
    return traces, stats
